#!/bin/sh
# usage: seedsweep.sh [tier]  — every stored seeded change against its property's check, in a scratch
# worktree of /repo (HEAD) under /tmp; prints one line per seed; removes the worktree afterwards.
TIER=${1:-quick}
WT=/tmp/seedsweep_wt
git -C /repo worktree remove --force $WT 2>/dev/null; rm -rf $WT
git -C /repo worktree add -q --detach $WT HEAD || exit 3
cd /verif
for d in seeded/*/; do
  n=$(basename $d); id=${n%%-*}
  git -C $WT checkout -q -- . ; git -C $WT clean -fdq
  if ! git -C $WT apply /verif/$d/patch.diff 2>/dev/null; then echo "$n: PATCH-DOES-NOT-APPLY"; continue; fi
  ./check $id --tier $TIER --no-evidence --repo $WT > /tmp/seedsweep_$n.log 2>&1; rc=$?
  echo "$n: exit=$rc $(grep -c '^VIOLATION' /tmp/seedsweep_$n.log) violation line(s)"
done
git -C /repo worktree remove --force $WT; git -C /repo worktree prune
