package phc

// C16: stored password-hash strings are accepted or rejected, never a panic.

func symDigits(max int) string {
	d := symString(max)
	for i := 0; i < len(d); i++ {
		vAssume(d[i] >= '0')
		vAssume(d[i] <= '9')
	}
	return d
}

// symB64: n free bytes (any byte but the '$' separator; characters outside the base64
// alphabet make the decoder return an error, which is one short path per position).
func symB64(n int) string {
	s := symStringN(n)
	for i := 0; i < len(s); i++ {
		vAssume(s[i] != '$')
		vAssume(s[i] > ' ')
	}
	return s
}

// HarnessPHCSalt: "$argon2id$v=19$m=64,t=1,p=2$<salt>$<hash>" with a salt segment of every
// length 0..maxsalt (free bytes) and a short free hash.
func HarnessPHCSalt() {
	// every salt-segment length 0..maxsalt; the trailing `symsalt` bytes are free, the
	// leading ones are the valid base64 character 'A' (the defect class here is about length)
	saltLen := symRange(0, vParam("maxsalt", 26))
	k := vParam("symsalt", 2)
	if k > saltLen {
		k = saltLen
	}
	salt := "AAAAAAAAAAAAAAAAAAAAAAAAAAAAAAAAAAAAAAAA"[:saltLen-k] + symB64(k)
	hash := symB64(symRange(0, vParam("maxhash", 2)))
	s := "$argon2id$v=19$m=64,t=1,p=2$" + salt + "$" + hash
	vNoPanic(func() {
		p, err := ParsePHC(s)
		if err == nil {
			vReach("accepted")
			vAssert(p != nil && len(p.hash) > 0, "c16.phc-accepted-without-hash")
		} else {
			vReach("rejected")
		}
	}, "c16.phc-parse-panic")
}

// HarnessPHCParams: symbolic digit runs in the version/parameter section.
func HarnessPHCParams() {
	s := "$argon2id$v=" + symDigits(2) + "$m=" + symDigits(2) + ",t=" + symDigits(1) + ",p=" + symDigits(1) + "$AAAAAAAAAAAAAAAAAAAAAA$AAAA"
	vNoPanic(func() {
		_, err := ParsePHC(s)
		if err == nil {
			vReach("accepted")
		} else {
			vReach("rejected")
		}
	}, "c16.phc-parse-panic")
}

// HarnessPHCFree: every string up to len bytes.
func HarnessPHCFree() {
	s := symString(vParam("len", 4))
	if len(s) > 2 {
		for i := 0; i < len(s); i++ {
			vAssume(s[i] < 0x80)
		}
	}
	vNoPanic(func() {
		_, err := ParsePHC(s)
		if err != nil {
			vReach("rejected")
		}
	}, "c16.phc-parse-panic")
}

// C20 "login succeeds only with the password whose stored hash verifies": the key derivation
// itself (argon2) and the constant-time comparison are trusted; what is checked is that the
// WHOLE submitted password, the stored salt and the stored cost parameters are what reservoir
// feeds the derivation - for every password of 0..70 bytes - and that the verdict is exactly
// the comparison of the derived key with the stored one.
func HarnessVerifyFeedsWholePassword() {
	lens := []int{0, 1, 8, 63, 64, 65, 70}
	pw := symString(lens[symChoice(len(lens))])
	if symChoice(2) == 0 {
		p := &PHC{id: "argon2id", version: 19, memory: uint32(symInt()), time: uint32(symInt()), threads: symByte(), keyLen: uint32(symInt()), hash: []byte{1, 2, 3, 4}}
		for i := range p.salt {
			p.salt[i] = symByte()
		}
		ok := p.VerifyArgon2id(pw)
		vReach("verify")
		kp, ks, kt, km, kth, kl := vKDFInput()
		vAssert(string(kp) == pw, "c20.kdf-input-is-not-the-whole-submitted-password")
		vAssert(len(ks) == 16, "c20.kdf-salt-is-not-the-stored-salt")
		for i := 0; i < len(ks) && i < 16; i++ {
			vAssert(ks[i] == p.salt[i], "c20.kdf-salt-is-not-the-stored-salt")
		}
		vAssert(kt == p.time && km == p.memory && kth == p.threads && kl == p.keyLen, "c20.kdf-parameters-are-not-the-stored-ones")
		vAssert(ok == (vLastVerdict() == 1), "c20.verdict-is-not-the-key-comparison")
	} else {
		p := GenerateArgon2id(pw)
		vReach("generate")
		kp, ks, kt, km, kth, kl := vKDFInput()
		vAssert(string(kp) == pw, "c20.kdf-input-is-not-the-whole-submitted-password")
		vAssert(p != nil && len(ks) == 16 && kt == p.time && km == p.memory && kth == p.threads && kl == p.keyLen, "c20.generated-hash-records-other-parameters")
		for i := 0; i < len(ks) && i < 16; i++ {
			vAssert(ks[i] == p.salt[i], "c20.generated-hash-records-another-salt")
		}
	}
}
