package phc

// C16: stored password-hash strings are accepted or rejected, never a panic.

func symDigits(max int) string {
	d := symString(max)
	for i := 0; i < len(d); i++ {
		vAssume(d[i] >= '0')
		vAssume(d[i] <= '9')
	}
	return d
}

// symB64: n free bytes (any byte but the '$' separator; characters outside the base64
// alphabet make the decoder return an error, which is one short path per position).
func symB64(n int) string {
	s := symStringN(n)
	for i := 0; i < len(s); i++ {
		vAssume(s[i] != '$')
		vAssume(s[i] > ' ')
	}
	return s
}

// HarnessPHCSalt: "$argon2id$v=19$m=64,t=1,p=2$<salt>$<hash>" with a salt segment of every
// length 0..maxsalt (free bytes) and a short free hash.
func HarnessPHCSalt() {
	// every salt-segment length 0..maxsalt; the trailing `symsalt` bytes are free, the
	// leading ones are the valid base64 character 'A' (the defect class here is about length)
	saltLen := symRange(0, vParam("maxsalt", 26))
	k := vParam("symsalt", 2)
	if k > saltLen {
		k = saltLen
	}
	salt := "AAAAAAAAAAAAAAAAAAAAAAAAAAAAAAAAAAAAAAAA"[:saltLen-k] + symB64(k)
	hash := symB64(symRange(0, vParam("maxhash", 2)))
	s := "$argon2id$v=19$m=64,t=1,p=2$" + salt + "$" + hash
	vNoPanic(func() {
		p, err := ParsePHC(s)
		if err == nil {
			vReach("accepted")
			vAssert(p != nil && len(p.hash) > 0, "c16.phc-accepted-without-hash")
		} else {
			vReach("rejected")
		}
	}, "c16.phc-parse-panic")
}

// HarnessPHCParams: symbolic digit runs in the version/parameter section.
func HarnessPHCParams() {
	s := "$argon2id$v=" + symDigits(2) + "$m=" + symDigits(2) + ",t=" + symDigits(1) + ",p=" + symDigits(1) + "$AAAAAAAAAAAAAAAAAAAAAA$AAAA"
	vNoPanic(func() {
		_, err := ParsePHC(s)
		if err == nil {
			vReach("accepted")
		} else {
			vReach("rejected")
		}
	}, "c16.phc-parse-panic")
}

// HarnessPHCFree: every string up to len bytes.
func HarnessPHCFree() {
	s := symString(vParam("len", 4))
	if len(s) > 2 {
		for i := 0; i < len(s); i++ {
			vAssume(s[i] < 0x80)
		}
	}
	vNoPanic(func() {
		_, err := ParsePHC(s)
		if err != nil {
			vReach("rejected")
		}
	}, "c16.phc-parse-panic")
}
