package phc

import "fmt"

func SelftestPHC() {
	s := symString(200)
	p, err := ParsePHC(s)
	if err != nil {
		vTrace("error")
		return
	}
	vTrace(fmt.Sprintf("%s:%d:%d:%d:%d:%d:%d", p.id, p.version, p.memory, p.time, p.threads, p.keyLen, len(p.hash)))
}
