package utils

// C16: Hex8ToIndex on arbitrary strings.
func HarnessHex8() {
	s := symString(vParam("len", 9))
	vNoPanic(func() {
		v := Hex8ToIndex(s)
		vReach("done")
		if len(s) == 0 {
			vAssert(v == 0, "c16.hex8-empty")
		}
	}, "c16.hex8-panic")
}
