package event

import "sync"

// C15: Subscribe / unsubscribe / Fire from different goroutines.
func HarnessRaceEvent() {
	e := New[int]()
	var mu sync.RWMutex // the harness's own scheduling points
	unsub := e.Subscribe(func(int) {}) // a non-last listener: its removal shifts the tail in place
	e.Subscribe(func(int) {})
	e.Subscribe(func(int) {})
	kind := symChoice(3)
	vRaceBegin()
	vInterpose(func() {
		switch kind {
		case 0:
			e.Subscribe(func(int) {})
		case 1:
			unsub()
		default:
			e.Fire(2)
		}
	}, 1)
	mu.Lock()
	mu.Unlock()
	switch symChoice(2) {
	case 0:
		e.Fire(1)
		vReach("fire")
	default:
		e.Subscribe(func(int) {})
		vReach("subscribe")
	}
	mu.Lock()
	mu.Unlock()
	vInterpose(nil, 0)
	vDropPending()
	vRaceEnd()
	if vInterposed() > 0 {
		vReach("pair-ran")
	}
}
