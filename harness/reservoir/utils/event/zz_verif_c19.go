package event

// C19 thin: sequential semantics of the listener list against a set model.

// HarnessEventSet: k listeners subscribe; then a symbolic sequence of {unsubscribe i, fire}.
func HarnessEventSet() {
	initial := vParam("listeners", 3)
	k := initial + vParam("late", 1) // listeners that subscribe later, after some have left
	steps := vParam("steps", 4)
	e := New[int]()
	calls := make([]int, k)   // number of notifications received
	last := make([]int, k)    // last value received
	subscribed := make([]bool, k)
	unsubs := make([]Unsubscribe, k)
	ever := make([]bool, k)
	join := func(i int) {
		unsubs[i] = e.Subscribe(func(v int) { calls[i]++; last[i] = v })
		subscribed[i] = true
		ever[i] = true
	}
	for i := 0; i < initial; i++ {
		join(i)
	}
	fired := 0
	for s := 0; s < steps; s++ {
		op := symChoice(k + 1)
		if op < k {
			if !ever[op] {
				if op != initial && !ever[op-1] {
					continue // late listeners join in order (symmetry)
				}
				join(op) // a new component starts while others are running or gone
				vReach("late-subscribe")
				continue
			}
			if !subscribed[op] {
				continue // each listener shuts down at most once
			}
			vNoPanic(func() { unsubs[op]() }, "c19.unsubscribe-panics")
			subscribed[op] = false
			vReach("unsubscribed")
		} else {
			fired++
			before := make([]int, k)
			copy(before, calls)
			e.Fire(100 + fired)
			vRunPending()
			vReach("fired")
			for i := 0; i < k; i++ {
				if subscribed[i] {
					vAssert(calls[i] == before[i]+1 && last[i] == 100+fired, "c19.live-listener-not-notified")
				} else {
					vAssert(calls[i] == before[i], "c19.shut-down-listener-notified")
				}
			}
		}
	}
}
