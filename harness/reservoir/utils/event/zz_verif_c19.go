package event

// C19 thin: sequential semantics of the listener list against a set model.

// HarnessEventSet: k listeners subscribe; then a symbolic sequence of {unsubscribe i, fire}.
func HarnessEventSet() {
	initial := vParam("listeners", 3)
	k := initial + vParam("late", 1) // listeners that subscribe later, after some have left
	steps := vParam("steps", 4)
	e := New[int]()
	calls := make([]int, k)   // number of notifications received
	last := make([]int, k)    // last value received
	subscribed := make([]bool, k)
	unsubs := make([]Unsubscribe, k)
	ever := make([]bool, k)
	join := func(i int) {
		unsubs[i] = e.Subscribe(func(v int) { calls[i]++; last[i] = v })
		subscribed[i] = true
		ever[i] = true
	}
	for i := 0; i < initial; i++ {
		join(i)
	}
	fired := 0
	for s := 0; s < steps; s++ {
		op := symChoice(k + 1)
		if op < k {
			if !ever[op] {
				if op != initial && !ever[op-1] {
					continue // late listeners join in order (symmetry)
				}
				join(op) // a new component starts while others are running or gone
				vReach("late-subscribe")
				continue
			}
			if !subscribed[op] {
				continue // each listener shuts down at most once
			}
			vNoPanic(func() { unsubs[op]() }, "c19.unsubscribe-panics")
			subscribed[op] = false
			vReach("unsubscribed")
		} else {
			fired++
			before := make([]int, k)
			copy(before, calls)
			e.Fire(100 + fired)
			vRunPending()
			vReach("fired")
			for i := 0; i < k; i++ {
				if subscribed[i] {
					vAssert(calls[i] == before[i]+1 && last[i] == 100+fired, "c19.live-listener-not-notified")
				} else {
					vAssert(calls[i] == before[i], "c19.shut-down-listener-notified")
				}
			}
		}
	}
}

// HarnessEventBackToBack: `fires` back-to-back Fire calls with two listeners (one of which may
// leave between two of them); all notification goroutines are still queued and then run in ANY
// order.  Every listener that stayed ends up with the value of the last Fire, no listener ever
// sees an older value after a newer one, and a listener that left before a Fire never gets it.
func HarnessEventBackToBack() {
	fires := vParam("fires", 3)
	e := New[int]()
	var last [2]int
	var regress [2]bool
	var unsubs [2]Unsubscribe
	for i := 0; i < 2; i++ {
		unsubs[i] = e.Subscribe(func(v int) {
			if v < last[i] {
				regress[i] = true
			}
			last[i] = v
		})
	}
	leaveBefore := symChoice(fires + 1) // listener 1 leaves before Fire number leaveBefore (0-based); == fires: stays
	for f := 0; f < fires; f++ {
		if f == leaveBefore {
			unsubs[1]()
			vReach("left-between-fires")
		}
		e.Fire(f + 1)
	}
	// the notification goroutines may also be preempted at their lock boundaries (preempt=n:
	// at most n preemptions), i.e. two callbacks of one listener may overlap in time
	vPreemptGoroutines(vParam("preempt", 0))
	for vPendingCount() > 0 {
		vRunPendingAt(symChoice(vPendingCount()))
	}
	vRunPending() // preempted ones run on, in any order
	vReach("all-delivered")
	vAssert(last[0] == fires, "c19.back-to-back.listener-not-at-the-latest-value")
	vAssert(!regress[0] && !regress[1], "c19.back-to-back.older-value-delivered-after-newer")
	if leaveBefore == fires {
		vAssert(last[1] == fires, "c19.back-to-back.listener-not-at-the-latest-value")
	} else {
		vAssert(last[1] <= leaveBefore, "c19.shut-down-listener-notified")
	}
}
