package bytesize

// C17 L1/L2 and C16 (size strings never panic).

func refUnit(b byte) (int64, bool) {
	switch b {
	case 'B':
		return UnitB, true
	case 'K':
		return UnitK, true
	case 'M':
		return UnitM, true
	case 'G':
		return UnitG, true
	case 'T':
		return UnitT, true
	}
	return 0, false
}

// HarnessParse: Parse(s) succeeds iff s = DIGIT+ UNIT and then means digits*unit.
func HarnessParse() {
	n := vParam("len", 5)
	s := symString(n)
	i := 0
	var v int64
	for i < len(s) && s[i] >= '0' && s[i] <= '9' {
		v = v*10 + int64(s[i]-'0')
		i++
	}
	var unit int64
	wellFormed := false
	if i > 0 && i == len(s)-1 {
		unit, wellFormed = refUnit(s[i])
	}
	var got ByteSize
	var err error
	vNoPanic(func() { got, err = Parse(s) }, "c16.bytesize-parse-panic")
	if wellFormed {
		vReach("well-formed")
		vAssert(err == nil && int64(got) == v*unit, "c17.size-wellformed-misread")
	} else {
		vReach("malformed")
		vAssert(err != nil, "c17.size-malformed-accepted")
	}
}

// HarnessString: String() writes (q, unit) with q*unit == b for every b >= 0.
func HarnessString() {
	b := symInt64()
	vAssume(b >= 0)
	var s string
	vNoPanic(func() { s = ByteSize(b).String() }, "c16.bytesize-string-panic")
	q, ok := vNumIn(s, "")
	vAssert(ok, "c17.size-writer-no-number")
	u := vLitAfterNum(s)
	vAssert(len(u) == 1, "c17.size-writer-unit-missing")
	if len(u) != 1 {
		return
	}
	unit, uok := refUnit(u[0])
	vAssert(uok, "c17.size-writer-unknown-unit")
	vReach("written")
	vAssert(q >= 0 && q*unit == b && (unit == 1 || q <= b/unit), "c17.size-written-value-differs")
}
