package bytesize

import "fmt"

func SelftestBytesize() {
	s := symString(64)
	b, err := Parse(s)
	if err != nil {
		vTrace("error")
		return
	}
	vTrace(fmt.Sprintf("%d:%s", int64(b), b.String()))
}
