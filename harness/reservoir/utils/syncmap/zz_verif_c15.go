package syncmap

// C15: SyncMap iteration (session GC) against Set/Delete (login/logout).
func HarnessRaceSyncMap() {
	m := New[string, int]()
	m.Set("a", 1)
	m.Set("b", 2)
	kind := symChoice(3)
	vRaceBegin()
	vInterpose(func() {
		switch kind {
		case 0:
			m.Set("c", 3)
		case 1:
			m.Delete("a")
		default:
			m.Get("a")
		}
	}, 1)
	switch symChoice(3) {
	case 0:
		for v := range m.Items() {
			_ = v
			m.Get("b") // a scheduling point inside the iteration (the GC loop calls Delete here)
		}
		vReach("items")
	case 1:
		for k := range m.Keys() {
			_ = k
			m.Get("b")
		}
		vReach("keys")
	default:
		m.GetOrSet("d", 4)
		vReach("get-or-set")
	}
	vInterpose(nil, 0)
	vRaceEnd()
	if vInterposed() > 0 {
		vReach("pair-ran")
	}
}
