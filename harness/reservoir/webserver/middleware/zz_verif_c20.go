package middleware

import (
	"net/http"
	"net/url"
)

type recWriter struct {
	h      http.Header
	status int
	wrote  bool
}

func (w *recWriter) Header() http.Header { return w.h }
func (w *recWriter) Write(b []byte) (int, error) {
	if w.status == 0 {
		w.status = 200
	}
	w.wrote = true
	return len(b), nil
}
func (w *recWriter) WriteHeader(code int) {
	if w.status == 0 {
		w.status = code
	}
}

type nextHandler struct{ calls int }

func (n *nextHandler) ServeHTTP(w http.ResponseWriter, r *http.Request) { n.calls++ }

// HarnessHarden: firm-refuse / firm-allow regions of DESIGN §C20(4); undecided → NOTE.
func HarnessHarden() {
	sites := []string{"", "same-origin", "same-site", "cross-site", "none", symStringN(3)}
	si := symChoice(len(sites))
	site := sites[si]
	hasSite := si != 0
	origins := []string{"", "https://evil.example", symStringN(2), "null", symStringN(4)}
	oi := symChoice(len(origins))
	origin := origins[oi]
	methods := []string{"GET", "POST", "OPTIONS", "PATCH"}
	method := methods[symChoice(len(methods))]
	h := http.Header{}
	if hasSite {
		h["Sec-Fetch-Site"] = []string{site}
	}
	if oi != 0 {
		h["Origin"] = []string{origin}
	}
	hasOrigin := origin != ""
	r := &http.Request{Method: method, Header: h, URL: &url.URL{Path: "/api/x"}}
	next := &nextHandler{}
	w := &recWriter{h: http.Header{}}
	vNoPanic(func() { Harden(next).ServeHTTP(w, r) }, "c16.harden-panic")
	vReach("served")
	// security headers on every response
	for _, name := range []string{"X-Frame-Options", "X-Content-Type-Options", "Referrer-Policy", "Cross-Origin-Opener-Policy", "Cross-Origin-Resource-Policy"} {
		vAssert(len(w.h[name]) == 1, "c20.security-header-missing")
	}
	sameish := site == "same-origin" || site == "same-site"
	attestedCross := hasSite && site != "" && !sameish && site != "none"
	preflight := method == "OPTIONS" && hasOrigin
	switch {
	case preflight:
		vReach("preflight")
		vAssert(next.calls == 0 && w.status == 403, "c20.preflight-not-refused")
	case attestedCross && hasOrigin:
		vReach("firm-refuse")
		vAssert(next.calls == 0 && w.status == 403, "c20.cross-site-request-reached-handler")
	case (!hasOrigin && (!hasSite || site == "")) || (hasSite && sameish):
		vReach("firm-allow")
		vAssert(next.calls == 1, "c20.same-site-request-refused")
	default:
		vNote("C20 Harden: undecided region (cross-site without Origin, or Origin without Fetch metadata): outcome recorded, not judged")
		vAssert(next.calls <= 1, "c20.handler-called-twice")
	}
}
