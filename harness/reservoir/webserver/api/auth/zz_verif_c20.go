package auth

import (
	"net/http"
	"net/url"
	"reservoir/db/models"
	"reservoir/webserver/api/apitypes"
)

type recWriter struct {
	h      http.Header
	status int
}

func (w *recWriter) Header() http.Header { return w.h }
func (w *recWriter) Write(b []byte) (int, error) {
	if w.status == 0 {
		w.status = 200
	}
	return len(b), nil
}
func (w *recWriter) WriteHeader(code int) {
	if w.status == 0 {
		w.status = code
	}
}

// HarnessLogin: a session cookie is issued iff a user row exists and the password check
// (argon2 + constant-time compare, trusted) says yes.
func HarnessLogin() {
	vSetUserRow(&models.User{ID: 5, Username: "admin"})
	w := &recWriter{h: http.Header{}}
	r := &http.Request{Method: "POST", Header: http.Header{}, URL: &url.URL{Path: "/api/auth/login"}, Body: http.NoBody}
	ctx := apitypes.Context{}
	vNoPanic(func() { (&LoginEndpoint{}).Post(w, r, ctx) }, "c16.login-panic")
	issued := len(w.h["Set-Cookie"]) > 0
	ok := vUserFound() && vLastVerdict() == 1
	vReach("login-done")
	if ok {
		vReach("good-password")
		vAssert(issued, "c20.good-login-no-session")
	} else {
		vReach("bad-login")
		vAssert(!issued, "c20.session-without-valid-password")
		vAssert(w.status != 200 && w.status != 0, "c20.failed-login-reports-success")
	}
}
