package api

import (
	"net/http"
	"net/url"
	"reservoir/config"
	"reservoir/webserver/auth"
	"time"
)

type recWriter struct {
	h      http.Header
	status int
}

func (w *recWriter) Header() http.Header { return w.h }
func (w *recWriter) Write(b []byte) (int, error) {
	if w.status == 0 {
		w.status = 200
	}
	return len(b), nil
}
func (w *recWriter) WriteHeader(code int) {
	if w.status == 0 {
		w.status = code
	}
}

// HarnessRoutesNeedSession: for EVERY route registered by the real api.New(cfg) table
// (except POST /api/auth/login) and every cookie / session-table state: the endpoint method
// runs only if the cookie names a live session; otherwise the answer is 401.
func HarnessRoutesNeedSession() {
	cfg := config.NewDefault()
	mux := http.NewServeMux()
	err := New(cfg).RegisterHandlers(mux)
	vAssert(err == nil, "c20.register-handlers-failed")
	n := vRouteCount()
	vAssert(n >= 13, "c20.route-table-shrunk")
	i := symChoice(n)
	pattern := vRoutePattern(i)
	if pattern == "POST /api/auth/login" {
		vReach("login-route-skipped")
		return
	}
	// session table: one session, possibly expired by any margin, possibly logged out
	s := auth.CreateSession(1)
	s.ExpiresAt = symTime()
	loggedOut := symBool()
	if loggedOut {
		s.Destroy()
	}
	// cookie: absent | the session's id | an arbitrary short value
	h := http.Header{}
	kind := symChoice(3)
	switch kind {
	case 1:
		h["Cookie"] = []string{"reservoir.sid=" + s.ID}
	case 2:
		h["Cookie"] = []string{"reservoir.sid=" + symString(2)}
	}
	r := &http.Request{Method: "GET", Header: h, URL: &url.URL{Path: "/api/x"}, Body: http.NoBody}
	w := &recWriter{h: http.Header{}}
	vClockFreeze(true)
	now := time.Now()
	before := vMarkerCount("endpoint-method")
	vRouteServe(i, w, r)
	ran := vMarkerCount("endpoint-method") > before
	live := kind == 1 && !loggedOut && now.Before(s.ExpiresAt)
	vReach("served")
	if live {
		vReach("live")
		vAssert(ran, "c20.live-session-refused")
	} else {
		vReach("not-live")
		vAssert(!ran, "c20.route-reached-without-live-session")
		vAssert(w.status == 401, "c20.unauthenticated-not-401")
	}
}
