package auth

import (
	"net/http"
	"time"
)

func reqWithCookie(val string, present bool) *http.Request {
	h := http.Header{}
	if present {
		h["Cookie"] = []string{"reservoir.sid=" + val}
	}
	return &http.Request{Method: "GET", Header: h}
}

// HarnessSessionLife: histories of {login, request, logout, clock advance} over one
// session: it is live exactly from its creation until logout or ExpiresAt; an expired
// session is refused, not revived.
func HarnessSessionLife() {
	steps := vParam("steps", 3)
	s := CreateSession(7)
	created := vNs(s.CreatedAt)
	expires := created + int64(defaultLifetime) // reference expiry (sliding extensions move it)
	loggedOut := false
	vAssert(vNs(s.ExpiresAt) == expires, "c20.session-lifetime-not-default")
	for i := 0; i < steps; i++ {
		switch symChoice(2) {
		case 0: // a request carrying the cookie, at an arbitrary later instant
			now := vNs(time.Now())
			vClockFreeze(true)
			got, ok := SessionFromRequest(reqWithCookie(s.ID, true))
			vClockFreeze(false)
			live := !loggedOut && now < expires
			if live {
				vReach("live-request")
				vAssert(ok && got == s, "c20.live-session-refused")
				// sliding extension only inside the last extendThreshold before expiry
				if expires-now <= int64(extendThreshold) {
					vReach("extended")
					expires = now + int64(defaultLifetime)
				}
				vAssert(vNs(s.ExpiresAt) == expires, "c20.session-expiry-wrong-after-request")
			} else if loggedOut {
				vReach("logged-out-request")
				vAssert(!ok, "c20.logged-out-session-accepted")
			} else {
				vReach("expired-request")
				vAssert(!ok, "c20.expired-session-accepted")
			}
		case 1:
			if !loggedOut {
				s.Destroy()
				loggedOut = true
				vReach("logout")
			}
		}
	}
}

// HarnessSessionCookieValues: arbitrary cookie values never name a session they are not.
func HarnessSessionCookieValues() {
	a := CreateSession(1)
	b := CreateSession(2)
	vAssert(a.ID != b.ID, "c20.session-ids-collide")
	v := symString(vParam("len", 3))
	present := symBool()
	vClockFreeze(true)
	got, ok := SessionFromRequest(reqWithCookie(v, present))
	vReach("looked-up")
	vAssert(!ok && got == nil, "c20.unknown-cookie-accepted")
	got, ok = SessionFromRequest(reqWithCookie(a.ID, true))
	vAssert(ok && got == a, "c20.live-session-refused")
}

// HarnessSessionGC: one GC tick removes exactly the expired sessions.
func HarnessSessionGC() {
	a := CreateSession(1)
	b := CreateSession(2)
	a.ExpiresAt = symTime()
	b.ExpiresAt = symTime()
	gcRunning = false
	StartSessionGC()
	vTick()
	vClockFreeze(true)
	now := time.Now()
	vRunPending()
	_, okA := sessionStore.Get(a.ID)
	_, okB := sessionStore.Get(b.ID)
	vReach("gc-ran")
	vAssert(okA == !a.ExpiresAt.Before(now), "c20.gc-removed-wrong-session")
	vAssert(okB == !b.ExpiresAt.Before(now), "c20.gc-removed-wrong-session")
}

// C15: two requests carrying the same session cookie (sliding extension writes ExpiresAt).
func HarnessRaceSession() {
	s := CreateSession(1)
	s.ExpiresAt = time.Now().Add(extendThreshold / 2) // inside the extension window
	vClockFreeze(true)
	vRaceBegin()
	vInterpose(func() { SessionFromRequest(reqWithCookie(s.ID, true)) }, 1)
	SessionFromRequest(reqWithCookie(s.ID, true))
	vInterpose(nil, 0)
	vRaceEnd()
	if vInterposed() > 0 {
		vReach("pair-ran")
	}
}
