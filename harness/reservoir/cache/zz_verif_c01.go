package cache

import (
	"io"
	"time"
)

// C01 at the cache API: what a reader obtains from an Entry is the complete body that was
// stored with exactly that metadata — also when a writer acts on the same or another key
// between Get and the read (the reader's lock is released in that window, so every
// interleaving of one reader with one writer is one of these placements).

type cacheUnderTest interface {
	Get(key CacheKey) (*Entry[vmeta], error)
	Cache(key CacheKey, data io.Reader, expires time.Time, metadata vmeta) (*Entry[vmeta], error)
	Delete(key CacheKey) error
}

func writerAction(c cacheUnderTest, mem *MemoryCache[vmeta], file *FileCache[vmeta], k CacheKey, v2 []byte, now time.Time) string {
	switch symChoice(6) {
	case 0:
		return "nothing"
	case 1:
		c.Cache(k, &symReader{data: v2, failAt: -1, chunks: true}, now.Add(time.Hour), vmeta{Ver: 2})
		return "overwrite"
	case 2:
		c.Cache(k, &symReader{data: v2, failAt: symRange(0, len(v2))}, now.Add(time.Hour), vmeta{Ver: 2})
		return "interrupted-overwrite"
	case 3:
		c.Delete(k)
		return "delete"
	case 4:
		if mem != nil {
			mem.janitor.evict(1)
		} else {
			file.janitor.evict(1)
		}
		return "evict"
	default:
		if mem != nil {
			mem.janitor.cleanExpiredEntries()
		} else {
			file.janitor.cleanExpiredEntries()
		}
		return "clean-expired"
	}
}

func readerVsWriter(c cacheUnderTest, mem *MemoryCache[vmeta], file *FileCache[vmeta], backend string) {
	vClockFreeze(true)
	now := time.Now()
	L := vParam("body", 3)
	v1 := symBytes(symRange(1, L))
	v2 := symBytes(symRange(1, L))
	k := vKeys[0]
	exp := now.Add(time.Hour)
	if symChoice(2) == 1 {
		exp = now.Add(-time.Second) // stale entries are served during revalidation too
	}
	_, err := c.Cache(k, &symReader{data: v1, failAt: -1, chunks: true}, exp, vmeta{Ver: 1})
	vAssert(err == nil, "c01."+backend+".store-failed")
	c.Cache(vKeys[1], &symReader{data: []byte{42}, failAt: -1}, now.Add(time.Hour), vmeta{Ver: 7})
	h, err := c.Get(k)
	vAssert(err == nil && h != nil, "c01."+backend+".stored-entry-not-found")
	if err != nil {
		return
	}
	vAssert(h.Metadata.Object.Ver == 1 && h.Metadata.Size == int64(len(v1)), "c01."+backend+".metadata-of-another-body")
	// the reader has consumed p bytes already
	p := symRange(0, len(v1))
	pre := make([]byte, p)
	if p > 0 {
		n, _ := io.ReadFull(h.Data, pre)
		vAssert(n == p && bytesEq(pre, v1[:p]), "c01."+backend+".prefix-differs")
	}
	// a writer acts on the same or on another key
	target := k
	if symChoice(2) == 1 {
		target = vKeys[1]
	}
	act := writerAction(c, mem, file, target, v2, now)
	vReach("writer-" + act)
	rest, rerr := readAll(h.Data)
	vAssert(rerr == nil, "c01."+backend+".read-error-after-"+act)
	vAssert(bytesEq(rest, v1[p:]), "c01."+backend+".reader-got-torn-or-mixed-body-after-"+act)
	// the slice path (Range): SectionReader over the same handle
	s := symRange(0, len(v1)-1)
	e := symRange(s, len(v1)-1)
	sec := io.NewSectionReader(h.Data, int64(s), int64(e-s+1))
	got, serr := readAll(secReader{sec})
	vAssert(serr == nil && bytesEq(got, v1[s:e+1]), "c01."+backend+".slice-differs-after-"+act)
	// a request that starts now never receives a replaced or removed body
	h2, err2 := c.Get(k)
	if target == k && (act == "overwrite") {
		vAssert(err2 == nil, "c01."+backend+".overwritten-entry-lost")
	}
	if err2 == nil {
		b2, _ := readAll(h2.Data)
		switch h2.Metadata.Object.Ver {
		case 1:
			vAssert(bytesEq(b2, v1) && h2.Metadata.Size == int64(len(v1)), "c01."+backend+".mispaired-body-and-metadata")
			vAssert(!(target == k && (act == "overwrite" || act == "delete")), "c01."+backend+".replaced-body-served-to-a-later-request")
		case 2:
			vAssert(bytesEq(b2, v2) && h2.Metadata.Size == int64(len(v2)), "c01."+backend+".mispaired-body-and-metadata")
		default:
			vAssert(false, "c01."+backend+".body-of-another-resource")
		}
	}
}

type secReader struct{ r *io.SectionReader }

func (s secReader) Read(p []byte) (int, error)                { return s.r.Read(p) }
func (s secReader) Seek(o int64, w int) (int64, error)        { return s.r.Seek(o, w) }
func (s secReader) ReadAt(p []byte, o int64) (int, error)     { return s.r.ReadAt(p, o) }
func (s secReader) Close() error                              { return nil }

func HarnessReaderWriterMem() {
	c := newMem(symRange(1, 2), 1<<30)
	readerVsWriter(c, c, nil, "mem")
}

func HarnessReaderWriterFile() {
	c := newFile(symRange(1, 2), 1<<30)
	readerVsWriter(c, nil, c, "file")
}

// HarnessStoreFailure: a failed or empty transfer never leaves a truncated entry behind.
func HarnessStoreFailure() {
	var c cacheUnderTest
	backend := "mem"
	// the limit is far away, or so near that the body may not fit into what is left of it
	limit := int64(1 << 30)
	tight := symChoice(2) == 1
	if tight {
		limit = 4
	}
	if symChoice(2) == 1 {
		backend = "file"
		c = newFile(2, limit)
		vFSFaults(1)
	} else {
		c = newMem(2, limit)
	}
	vClockFreeze(true)
	now := time.Now()
	if tight {
		c.Cache(vKeys[1], &symReader{data: []byte{7, 7}, failAt: -1}, now.Add(time.Hour), vmeta{Ver: 7})
		vReach("nearly-full")
	}
	body := symBytes(symRange(0, vParam("body", 3)))
	fail := -1
	if symChoice(2) == 1 {
		fail = symRange(0, len(body))
	}
	e, err := c.Cache(vKeys[0], &symReader{data: body, failAt: fail, chunks: true}, now.Add(time.Hour), vmeta{Ver: 1})
	if err == nil {
		vReach("stored")
		got, rerr := readAll(e.Data)
		vAssert(rerr == nil && bytesEq(got, body) && e.Metadata.Size == int64(len(body)), "c01."+backend+".stored-body-differs")
		vAssert(fail < 0 || fail >= len(body), "c01."+backend+".aborted-transfer-stored")
	} else {
		vReach("refused")
	}
	h, gerr := c.Get(vKeys[0])
	if gerr == nil {
		got, rerr := readAll(h.Data)
		// (an error reported although a complete entry was stored - e.g. a failed Seek after the
		// copy - is not a C01 matter: only a truncated or foreign body would be)
		vAssert(rerr == nil && bytesEq(got, body), "c01."+backend+".truncated-entry-served")
	}
}

// interleavedGet: a second thread's operation (overwrite / delete of the same key) may run,
// atomically, at ANY lock or file-system boundary inside the reader's Get: whatever Get then
// returns must still be one version's body with that version's metadata.
func interleavedGet(c cacheUnderTest, backend string) {
	vClockFreeze(true)
	now := time.Now()
	L := vParam("body", 2)
	v1 := symBytes(symRange(1, L))
	v2 := symBytes(symRange(1, L))
	k := vKeys[0]
	_, err := c.Cache(k, &symReader{data: v1, failAt: -1}, now.Add(time.Hour), vmeta{Ver: 1})
	vAssert(err == nil, "c01."+backend+".store-failed")
	kind := symChoice(2)
	vSecond(func() {
		if kind == 0 {
			c.Cache(k, &symReader{data: v2, failAt: -1}, now.Add(time.Hour), vmeta{Ver: 2})
		} else {
			c.Delete(k)
		}
	})
	h, gerr := c.Get(k)
	if vSecondDone() {
		vReach("writer-ran-inside-get")
	}
	if gerr != nil {
		vReach("get-failed")
		return
	}
	got, rerr := readAll(h.Data)
	vReach("get-succeeded")
	switch h.Metadata.Object.Ver {
	case 1:
		vAssert(rerr == nil && bytesEq(got, v1) && h.Metadata.Size == int64(len(v1)), "c01."+backend+".get-pairs-metadata-with-another-versions-body")
	case 2:
		vAssert(rerr == nil && bytesEq(got, v2) && h.Metadata.Size == int64(len(v2)), "c01."+backend+".get-pairs-metadata-with-another-versions-body")
	default:
		vAssert(false, "c01."+backend+".body-of-another-resource")
	}
}

func HarnessInterleavedGetMem()  { interleavedGet(newMem(symRange(1, 2), 1<<30), "mem") }
func HarnessInterleavedGetFile() { interleavedGet(newFile(symRange(1, 2), 1<<30), "file") }
