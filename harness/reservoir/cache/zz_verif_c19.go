package cache

import (
	"context"
	"time"

	"reservoir/utils/bytesize"
	"reservoir/utils/duration"
)

// C19: "every live component ends up following the most recent value, however quickly changes
// follow one another ... all schedulings of the asynchronous notifications of back-to-back changes".
//
// HarnessBackToBackChanges: two accepted changes of one setting follow one another before any
// notification goroutine has run; the notification goroutines then run in any order.  The
// component (memory / file cache limit, memory budget, janitor interval) must end up at the
// second value.
func HarnessBackToBackChanges() {
	resetMetrics()
	vSetSysMem(1 << 40)
	cfg := newCfg(1 << 30)
	var mem *MemoryCache[vmeta]
	var file *FileCache[vmeta]
	backend := symChoice(2)
	if backend == 0 {
		mem = NewMemoryCache[vmeta](cfg, 50, 1<<30, time.Hour, 2, context.Background())
	} else {
		file = NewFileCache[vmeta](cfg, "var/vcache", 1<<30, time.Hour, 2, context.Background())
	}
	vAssert(vPendingCount() == 1, "c13.janitor-goroutine-not-started")
	vRunPendingAt(0) // the janitor loop starts and waits for its ticker / a change / stop
	vAssert(vParkedCount() == 1 && vPendingCount() == 0, "c13.janitor-loop-not-waiting")
	setting := symChoice(3)
	a, b := symInt(), symInt() // two values in the valid range of every one of the settings
	vAssume(a >= 1 && a <= 90)
	vAssume(b >= 1 && b <= 90)
	vAssume(a != b)
	change := func(v int) {
		switch setting {
		case 0:
			cfg.Cache.MaxCacheSize.Stage(bytesize.ByteSize(int64(v) << 20))
			cfg.Cache.MaxCacheSize.CommitStaged()
		case 1:
			cfg.Cache.Memory.MemoryBudgetPercent.Stage(v)
			cfg.Cache.Memory.MemoryBudgetPercent.CommitStaged()
		default:
			cfg.Cache.CleanupInterval.Stage(duration.Duration(time.Duration(v) * time.Minute))
			cfg.Cache.CleanupInterval.CommitStaged()
		}
	}
	change(a)
	n1 := vPendingCount()
	change(b)
	n := vPendingCount()
	if setting == 1 && backend == 1 {
		vAssert(n == 0, "c19.unexpected-listener") // the file cache has no memory budget
		return
	}
	vAssert(n1 == 1 && n == 2, "c19.listener-not-notified")
	// any order of the two notification goroutines; the janitor loop either takes what a
	// listener hands over at once, or is busy (not scheduled) until both listeners have run
	j := file.janitorOf(mem)
	first := 0
	if symChoice(2) == 1 {
		first = 1
		vReach("reordered")
	} else {
		vReach("in-order")
	}
	busy := symChoice(2) == 1
	vRunPendingAt(first)
	if busy {
		vReach("janitor-busy")
	} else {
		vResumeParked() // the janitor loop takes the value at once
	}
	vRunPendingAt(0)
	vRunPending() // everybody runs until nobody can go on
	vAssert(vPendingCount() == 0 && vParkedCount() == 1, "c19.back-to-back.notification-never-delivered")
	switch setting {
	case 0:
		var got int64
		if mem != nil {
			got = mem.maxCacheSize.Get()
		} else {
			got = file.maxCacheSize.Get()
		}
		vAssert(got == int64(b)<<20, "c19.back-to-back.cache-limit-not-the-latest")
		vAssert(cfg.Cache.MaxCacheSize.Read().Bytes() == int64(b)<<20, "c19.back-to-back.setting-not-the-latest")
	case 1:
		vAssert(mem.memoryCap == (1<<40)*int64(b)/100, "c19.back-to-back.memory-budget-not-the-latest")
	default:
		vAssert(j.interval == time.Duration(b)*time.Minute && vTickerInterval() == time.Duration(b)*time.Minute, "c19.back-to-back.cleanup-interval-not-the-latest")
	}
}

func (file *FileCache[M]) janitorOf(mem *MemoryCache[M]) *cacheJanitor[M] {
	if mem != nil {
		return mem.janitor
	}
	return file.janitor
}
