package cache

import (
	"context"
	"time"

	"reservoir/utils/bytesize"
	"reservoir/utils/duration"
)

// C19: "every live component ends up following the most recent value, however quickly changes
// follow one another ... all schedulings of the asynchronous notifications of back-to-back changes".
//
// HarnessBackToBackChanges: two accepted changes of one setting follow one another before any
// notification goroutine has run; the notification goroutines then run in any order.  The
// component (memory / file cache limit, memory budget, janitor interval) must end up at the
// second value.
func HarnessBackToBackChanges() {
	resetMetrics()
	vSetSysMem(1 << 40)
	cfg := newCfg(1 << 30)
	var mem *MemoryCache[vmeta]
	var file *FileCache[vmeta]
	backend := symChoice(2)
	if backend == 0 {
		mem = NewMemoryCache[vmeta](cfg, 50, 1<<30, time.Hour, 2, context.Background())
	} else {
		file = NewFileCache[vmeta](cfg, "var/vcache", 1<<30, time.Hour, 2, context.Background())
	}
	vAssert(vPendingCount() == 1, "c13.janitor-goroutine-not-started")
	vRunPendingAt(0) // the janitor loop starts and waits for its ticker / a change / stop
	vAssert(vParkedCount() == 1 && vPendingCount() == 0, "c13.janitor-loop-not-waiting")
	setting := symChoice(3)
	a, b := symInt(), symInt() // two values in the valid range of every one of the settings
	vAssume(a >= 1 && a <= 90)
	vAssume(b >= 1 && b <= 90)
	vAssume(a != b)
	change := func(v int) {
		switch setting {
		case 0:
			cfg.Cache.MaxCacheSize.Stage(bytesize.ByteSize(int64(v) << 20))
			cfg.Cache.MaxCacheSize.CommitStaged()
		case 1:
			cfg.Cache.Memory.MemoryBudgetPercent.Stage(v)
			cfg.Cache.Memory.MemoryBudgetPercent.CommitStaged()
		default:
			cfg.Cache.CleanupInterval.Stage(duration.Duration(time.Duration(v) * time.Minute))
			cfg.Cache.CleanupInterval.CommitStaged()
		}
	}
	change(a)
	n1 := vPendingCount()
	change(b)
	n := vPendingCount()
	if setting == 1 && backend == 1 {
		vAssert(n == 0, "c19.unexpected-listener") // the file cache has no memory budget
		return
	}
	vAssert(n1 == 1 && n == 2, "c19.listener-not-notified")
	// any order of the two notification goroutines; the janitor loop either takes what a
	// listener hands over at once, or is busy (not scheduled) until both listeners have run
	j := file.janitorOf(mem)
	first := 0
	if symChoice(2) == 1 {
		first = 1
		vReach("reordered")
	} else {
		vReach("in-order")
	}
	busy := symChoice(2) == 1
	vRunPendingAt(first)
	if busy {
		vReach("janitor-busy")
	} else {
		vResumeParked() // the janitor loop takes the value at once
	}
	vRunPendingAt(0)
	vRunPending() // everybody runs until nobody can go on
	vAssert(vPendingCount() == 0 && vParkedCount() == 1, "c19.back-to-back.notification-never-delivered")
	switch setting {
	case 0:
		var got int64
		if mem != nil {
			got = mem.maxCacheSize.Get()
		} else {
			got = file.maxCacheSize.Get()
		}
		vAssert(got == int64(b)<<20, "c19.back-to-back.cache-limit-not-the-latest")
		vAssert(cfg.Cache.MaxCacheSize.Read().Bytes() == int64(b)<<20, "c19.back-to-back.setting-not-the-latest")
	case 1:
		vAssert(mem.memoryCap == (1<<40)*int64(b)/100, "c19.back-to-back.memory-budget-not-the-latest")
	default:
		vAssert(j.interval == time.Duration(b)*time.Minute && vTickerInterval() == time.Duration(b)*time.Minute, "c19.back-to-back.cleanup-interval-not-the-latest")
	}
}

func (file *FileCache[M]) janitorOf(mem *MemoryCache[M]) *cacheJanitor[M] {
	if mem != nil {
		return mem.janitor
	}
	return file.janitor
}

// HarnessShutdownUnsubscribes: "a component that has been shut down is not notified of any
// later change".  Two caches (any backends) share one configuration.  The first is shut down
// - with its context live or already cancelled, its janitor loop scheduled (so that it has
// seen the cancellation and left) or not - and then every setting changes: no notification is
// started for the shut-down cache (its limit, budget and janitor stay as they were), while the
// second cache still follows every change.
func HarnessShutdownUnsubscribes() {
	resetMetrics()
	vSetSysMem(1 << 40)
	cfg := newCfg(1 << 30)
	ctxA := context.Background()
	cancelled := symChoice(2) == 1
	if cancelled {
		ctxA = vCancelledCtx()
		vReach("context-cancelled-first")
	}
	var memA, memB *MemoryCache[vmeta]
	var fileA, fileB *FileCache[vmeta]
	if symChoice(2) == 0 {
		memA = NewMemoryCache[vmeta](cfg, 50, 1<<30, time.Hour, 2, ctxA)
	} else {
		fileA = NewFileCache[vmeta](cfg, "var/vcacheA", 1<<30, time.Hour, 2, ctxA)
	}
	if symChoice(2) == 1 {
		vRunPending() // A's janitor loop runs: it leaves at once if the context is cancelled, else waits
		vReach("janitor-scheduled-before-shutdown")
	}
	if symChoice(2) == 0 {
		memB = NewMemoryCache[vmeta](cfg, 50, 1<<30, time.Hour, 2, context.Background())
	} else {
		fileB = NewFileCache[vmeta](cfg, "var/vcacheB", 1<<30, time.Hour, 2, context.Background())
	}
	// shut A down
	if memA != nil {
		memA.Destroy()
	} else {
		fileA.Destroy()
	}
	vRunPending() // A's loop (if still there) sees the stop; B's loop starts and waits
	jA := fileA.janitorOf(memA)
	jB := fileB.janitorOf(memB)
	bListeners := 2 // limit + janitor interval
	if memB != nil {
		bListeners = 3 // + memory budget
	}
	_ = bListeners
	// every setting changes
	before := vPendingCount()
	cfg.Cache.MaxCacheSize.Stage(bytesizeOf(7 << 20))
	cfg.Cache.MaxCacheSize.CommitStaged()
	vAssert(vPendingCount()-before == 1, "c19.shut-down-component-notified") // B's limit listener only
	before = vPendingCount()
	cfg.Cache.CleanupInterval.Stage(duration.Duration(7 * time.Minute))
	cfg.Cache.CleanupInterval.CommitStaged()
	vAssert(vPendingCount()-before == 1, "c19.shut-down-component-notified") // B's janitor only
	before = vPendingCount()
	cfg.Cache.Memory.MemoryBudgetPercent.Stage(7)
	cfg.Cache.Memory.MemoryBudgetPercent.CommitStaged()
	want := 0
	if memB != nil {
		want = 1
	}
	vAssert(vPendingCount()-before == want, "c19.shut-down-component-notified")
	vRunPending()
	vReach("changed-after-shutdown")
	// A is untouched ...
	if memA != nil {
		vAssert(memA.maxCacheSize.Get() == 1<<30 && memA.memoryCap == (1<<40)*50/100, "c19.shut-down-component-notified")
	} else {
		vAssert(fileA.maxCacheSize.Get() == 1<<30, "c19.shut-down-component-notified")
	}
	vAssert(jA.interval == time.Hour && len(jA.intervalChanged) == 0, "c19.shut-down-component-notified")
	// ... B follows
	if memB != nil {
		vAssert(memB.maxCacheSize.Get() == 7<<20 && memB.memoryCap == (1<<40)*7/100, "c19.live-listener-not-notified")
	} else {
		vAssert(fileB.maxCacheSize.Get() == 7<<20, "c19.live-listener-not-notified")
	}
	vAssert(jB.interval == 7*time.Minute, "c19.live-listener-not-notified")
}
