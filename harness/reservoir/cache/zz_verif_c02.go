package cache

import (
	"strings"
	"crypto/tls"
	"net/http"
	"net/url"
)

// C02: distinct resources never share a cache entry.
//
// BLAKE2b-256 is modelled as an injective function (collision freedom is assumed), so two
// keys are equal iff the byte strings handed to the hash are equal; the harness compares
// those pre-hash strings (vLastHashInput) for symbolic request tuples.

func preHash(method, host, path, query string, secure bool) string {
	r := &http.Request{Method: method, Host: host, URL: &url.URL{Path: path, RawQuery: query}}
	if secure {
		r.TLS = &tls.ConnectionState{}
	}
	k := MakeFromRequest(r)
	vAssert(len(k.Hex) == 64, "c02.key-not-64-hex")
	return vLastHashInput()
}

// symComp: a component that is a fixed point of the normalisations (no upper case, no '/',
// no '.'), so that only the joining of components is exercised.
func symComp(n int) string {
	s := symString(n)
	for i := 0; i < len(s); i++ {
		c := s[i]
		vAssume((c < 'A' || c > 'Z') && c != '/' && c != '.' && c < 0x80)
	}
	return s
}

// HarnessKeyBoundary: two requests that differ only in two adjacent components (every
// boundary: method|host, host|path, path|query): equal keys imply equal components —
// characters cannot move across a component boundary.
func HarnessKeyBoundary() {
	n := vParam("len", 2)
	c := [4]string{"GET", "h", "p", "q"}
	d := c
	b := symChoice(3)
	c[b], c[b+1] = symComp(n), symComp(n)
	d[b], d[b+1] = symComp(n), symComp(n)
	k1 := preHash(c[0], c[1], "/"+c[2], c[3], false)
	k2 := preHash(d[0], d[1], "/"+d[2], d[3], false)
	same := c[b] == d[b] && c[b+1] == d[b+1]
	vReach("compared")
	if k1 == k2 {
		vReach("keys-equal")
		vAssert(same, "c02.components-collide")
	} else {
		vAssert(!same, "c02.same-request-different-key")
	}
}

// HarnessKeyInjective: all four components of both requests symbolic (thorough tier).
func HarnessKeyInjective() {
	n := vParam("len", 1)
	m1, h1, p1, q1 := symComp(n), symComp(n), "/"+symComp(n), symComp(n)
	m2, h2, p2, q2 := symComp(n), symComp(n), "/"+symComp(n), symComp(n)
	s1 := symBool()
	s2 := symBool()
	a := preHash(m1, h1, p1, q1, s1)
	b := preHash(m2, h2, p2, q2, s2)
	same := m1 == m2 && h1 == h2 && p1 == p2 && q1 == q2 && s1 == s2
	vReach("compared")
	if a == b {
		vReach("keys-equal")
		vAssert(same, "c02.components-collide")
	} else {
		vAssert(!same, "c02.same-request-different-key")
	}
}

// ---- reference path normalisation: RFC 3986 §5.2.4 remove_dot_segments after collapsing
// repeated slashes; a trailing slash is significant ----

func refCollapse(p string) string {
	out := make([]byte, 0, len(p))
	for i := 0; i < len(p); i++ {
		if p[i] == '/' && len(out) > 0 && out[len(out)-1] == '/' {
			continue
		}
		out = append(out, p[i])
	}
	return string(out)
}

func refRemoveDots(in string) string {
	// operates on absolute paths (in[0] == '/')
	var segs []string
	trailing := false
	i := 1
	for i <= len(in) {
		j := i
		for j < len(in) && in[j] != '/' {
			j++
		}
		seg := in[i:j]
		last := j >= len(in)
		switch seg {
		case "":
			if last {
				trailing = true
			}
		case ".":
			if last {
				trailing = true
			}
		case "..":
			if len(segs) > 0 {
				segs = segs[:len(segs)-1]
			}
			if last {
				trailing = true
			}
		default:
			segs = append(segs, seg)
		}
		i = j + 1
	}
	out := ""
	for _, s := range segs {
		out += "/" + s
	}
	if trailing || len(segs) == 0 {
		out += "/"
	}
	return out
}

func refNormPath(p string) string { return refRemoveDots(refCollapse(p)) }

func symPath(n int) string {
	s := "/" + symString(n)
	for i := 1; i < len(s); i++ {
		vAssume(s[i] < 0x80)
	}
	return s
}

// HarnessKeyPathPairs: two absolute paths: keys are equal iff the reference normal forms are.
func HarnessKeyPathPairs() {
	n := vParam("len", 3)
	p, q := symPath(n), symPath(n)
	a := preHash("GET", "h", p, "", false)
	b := preHash("GET", "h", q, "", false)
	refSame := refNormPath(p) == refNormPath(q)
	vReach("compared")
	if refSame {
		vReach("same-resource")
		vAssert(a == b, "c02.same-path-not-shared")
	} else {
		vReach("different-resource")
		vAssert(a != b, "c02.different-paths-share-entry")
	}
}

func refFoldASCII(s string) string {
	b := []byte(s)
	for i := range b {
		if b[i] >= 'A' && b[i] <= 'Z' {
			b[i] += 32
		}
	}
	return string(b)
}

// HarnessKeyHostPairs: hosts are compared case-insensitively (ASCII: net/http rejects a
// non-ASCII Host header before the handler runs).
func HarnessKeyHostPairs() {
	n := vParam("len", 3)
	h1, h2 := symString(n), symString(n)
	for i := 0; i < len(h1); i++ {
		vAssume(h1[i] < 0x80)
	}
	for i := 0; i < len(h2); i++ {
		vAssume(h2[i] < 0x80)
	}
	a := preHash("GET", h1, "/x", "q", true)
	b := preHash("GET", h2, "/x", "q", true)
	if refFoldASCII(h1) == refFoldASCII(h2) {
		vReach("same-host")
		vAssert(a == b, "c02.host-case-not-shared")
	} else {
		vReach("different-host")
		vAssert(a != b, "c02.different-hosts-share-entry")
	}
}

// HarnessKeyHash: NewCacheKey hands exactly its argument to the hash and hex-encodes it.
func HarnessKeyHash() {
	s := symString(vParam("len", 4))
	k := FromString(s)
	vReach("hashed")
	vAssert(vLastHashInput() == s, "c02.hash-input-differs")
	vAssert(len(k.Hex) == 64, "c02.key-not-64-hex")
	for i := 0; i < len(k.Hex); i++ {
		c := k.Hex[i]
		vAssert((c >= '0' && c <= '9') || (c >= 'a' && c <= 'f'), "c02.key-not-hex")
	}
}

// HarnessKeyDerivedPairs: one symbolic absolute path p and paths derived from it by adding
// a trailing slash or dot-segments: they share an entry exactly when the reference
// normal forms agree (longer paths than the two-free-paths harness can afford).
func HarnessKeyDerivedPairs() {
	p := symPath(vParam("len", 4))
	var q string
	switch symChoice(5) {
	case 0:
		q = p + "/"
	case 1:
		q = p + "/."
	case 2:
		q = p + "/.."
	case 3:
		q = "/." + p
	default:
		q = p + "//"
	}
	a := preHash("GET", "h", p, "", false)
	b := preHash("GET", "h", q, "", false)
	vReach("compared")
	if refNormPath(p) == refNormPath(q) {
		vReach("same-resource")
		vAssert(a == b, "c02.same-path-not-shared")
	} else {
		vReach("different-resource")
		vAssert(a != b, "c02.different-paths-share-entry")
	}
}

// HarnessKeyDerivedHosts: one symbolic host h and hosts derived from it by adding a port
// (":80", ":443", ":8"), a trailing dot, or a leading label byte, over both transports of both
// requests: the proxy contacts the origin exactly as named by Host (proxy/requests.go builds
// the upstream URL from req.Host), so hosts that differ after ASCII case folding are different
// resources and must not share an entry - an explicit default port included.
func HarnessKeyDerivedHosts() {
	n := vParam("len", 3)
	h := symString(n)
	for i := 0; i < len(h); i++ {
		vAssume(h[i] < 0x80)
	}
	var g string
	switch symChoice(6) {
	case 0:
		g = h + ":80"
	case 1:
		g = h + ":443"
	case 2:
		g = h + ":8"
	case 3:
		g = h + "."
	case 4:
		g = "w" + h
	default:
		g = h + ":"
	}
	tls1, tls2 := symChoice(2) == 1, symChoice(2) == 1
	a := preHash("GET", h, "/x", "q", tls1)
	b := preHash("GET", g, "/x", "q", tls2)
	vReach("compared")
	vAssert(a != b, "c02.different-hosts-share-entry")
	// and the derived host still shares with its own case variants
	c := preHash("GET", refFoldASCII(g), "/x", "q", tls2)
	vAssert(b == c, "c02.host-case-not-shared")
}

// HarnessKeyEncodedPairs: request targets as they are on the wire, parsed the way net/http
// parses a request line (decoded Path + RawPath).  A percent-encoded reserved character is a
// different path from its decoded form (%2F is not a segment separator, %3F does not start
// the query, %23 no fragment): such pairs never share an entry; pairs that differ only by
// dot-segments or duplicate slashes still do.
func HarnessKeyEncodedPairs() {
	type pair struct {
		a, b string
		same bool
	}
	pairs := []pair{
		{"/dir%2Ffile", "/dir/file", false},
		{"/dir%2F", "/dir/", false},
		{"/a%3Fb", "/a?b", false},
		{"/a%3Fx=1", "/a?x=1", false},
		{"/a%23b", "/a", false},
		{"/a%2F..%2Fb", "/b", false},
		{"/x/..%2Fy", "/y", false},
		{"/dir%2Ffile?q=1", "/dir%2Ffile?q=2", false},
		{"/dir%252Ffile", "/dir%2Ffile", false}, // a doubly encoded escape is not its singly encoded form
		{"/a%2541", "/a%41", false},
		{"/dir%252Ffile", "/dir/file", false},
		{"/a/./b", "/a/b", true},
		{"/a//b", "/a/b", true},
		{"/a%2Fb/../c", "/a%2Fb/../c", true},
		{"/sp%20ace", "/sp%20ace", true},
	}
	p := pairs[symChoice(len(pairs))]
	key := func(target string) string {
		u, err := url.ParseRequestURI(target)
		vAssert(err == nil, "c02.harness-target-does-not-parse")
		r := &http.Request{Method: "GET", Host: "h", URL: u, RequestURI: target}
		MakeFromRequest(r)
		return vLastHashInput()
	}
	ka, kb := key(p.a), key(p.b)
	vReach("compared")
	if p.same {
		vAssert(ka == kb, "c02.same-path-not-shared")
	} else {
		vAssert(ka != kb, "c02.different-paths-share-entry")
	}
}

// HarnessKeyLongComponents: components longer than any small length field (255, 256, 257, 260,
// 513 bytes).  Moving the tail of a long path into the query (or the tail of a long host into the
// path) never yields the key of the original request, and a long component still tells its
// neighbours apart.
func HarnessKeyLongComponents() {
	ns := []int{250, 255, 256, 257, 260, 513}
	n := ns[symChoice(len(ns))]
	long := strings.Repeat("x", n)
	key := func(method, host, path, query string) string {
		r := &http.Request{Method: method, Host: host, URL: &url.URL{Path: path, RawQuery: query}}
		MakeFromRequest(r)
		return vLastHashInput()
	}
	vReach("compared")
	// path / query boundary
	a := key("GET", "h", "/api/"+long, "")
	b := key("GET", "h", "/api", "/"+long)
	vAssert(a != b, "c02.different-paths-share-entry")
	c := key("GET", "h", "/api/"+long, "q")
	d := key("GET", "h", "/api/"+long+"q", "")
	vAssert(c != d, "c02.different-paths-share-entry")
	// host / path boundary
	e := key("GET", "h"+long, "/p", "")
	f := key("GET", "h", long+"/p", "")
	vAssert(e != f, "c02.different-hosts-share-entry")
	// method / host boundary
	g := key("GET"+long, "h", "/p", "")
	h := key("GET", long+"h", "/p", "")
	vAssert(g != h, "c02.different-hosts-share-entry")
	// and the same long request twice is the same key
	vAssert(a == key("GET", "h", "/api/"+long, ""), "c02.same-path-not-shared")
}
