package cache

import (
	"context"
	"errors"
	"io"
	"reservoir/config"
	"reservoir/metrics"
	"time"
)

// Shared construction of symbolic valid cache states (C01, C09, C12, C13, C14).

type vmeta struct{ Ver int64 }

// keys whose first 8 hex digits are 0,1,2,3: with n shards the lock index is i % n, so both
// colliding and distinct shards occur for n in {1,2,3}.
var vKeys = [4]CacheKey{{Hex: "00000000aaaa"}, {Hex: "00000001bbbb"}, {Hex: "00000002cccc"}, {Hex: "00000003dddd"}}

var errSourceFailed = errors.New("origin transfer aborted")

// symReader delivers `data` in nondeterministic chunks and may fail after failAt bytes.
type symReader struct {
	data   []byte
	pos    int
	failAt int // -1: never
	chunks bool
	chunk  int // > 0: at most this many bytes per Read (several write calls per store)
}

func (r *symReader) Read(p []byte) (int, error) {
	if r.failAt >= 0 && r.pos >= r.failAt {
		return 0, errSourceFailed
	}
	rem := len(r.data) - r.pos
	if rem == 0 {
		return 0, io.EOF
	}
	n := rem
	if n > len(p) {
		n = len(p)
	}
	if r.failAt >= 0 && r.pos+n > r.failAt {
		n = r.failAt - r.pos
	}
	if r.chunk > 0 && n > r.chunk {
		n = r.chunk
	}
	if r.chunks && n > 1 {
		n = symRange(1, n)
	}
	copy(p, r.data[r.pos:r.pos+n])
	r.pos += n
	return n, nil
}

// kitCfg is the configuration the most recently built cache was given (the harnesses that
// change settings at run time need it; they do not reach into the cache for it).
var kitCfg *config.Config

func newCfg(limit int64) *config.Config {
	cfg := config.NewDefault()
	kitCfg = cfg
	cfg.Cache.MaxCacheSize.Stage(bytesizeOf(limit)) // the file value, not a CLI override
	cfg.Cache.MaxCacheSize.CommitStaged()
	vDropPending()
	return cfg
}

func resetMetrics() {
	metrics.Global.Cache.BytesCached.Set(0)
	metrics.Global.Cache.CacheEntries.Set(0)
}

// newMem builds a MemoryCache with `shards` lock shards and the given limit; the janitor
// goroutine is not run (its cycle body is called directly where needed).
func newMem(shards int, limit int64) *MemoryCache[vmeta] {
	resetMetrics()
	vSetSysMem(1 << 40)
	c := NewMemoryCache[vmeta](newCfg(limit), 100, limit, time.Hour, shards, context.Background())
	vDropPending()
	return c
}

func newFile(shards int, limit int64) *FileCache[vmeta] {
	resetMetrics()
	c := NewFileCache[vmeta](newCfg(limit), "var/vcache", limit, time.Hour, shards, context.Background())
	vDropPending()
	return c
}

// putMem installs an entry directly (a state every history of stores can reach).
func putMem(c *MemoryCache[vmeta], k CacheKey, data []byte, exp, access time.Time, ver int64) {
	m := &EntryMetadata[vmeta]{TimeWritten: access, LastAccess: access, Expires: exp, Size: int64(len(data)), Object: vmeta{Ver: ver}}
	c.entries[k] = &memoryInternalEntry[vmeta]{data: data, meta: m}
	c.byteSize.Add(int64(len(data)))
	metrics.Global.Cache.BytesCached.Add(int64(len(data)))
	metrics.Global.Cache.CacheEntries.Add(1)
}

func putFile(c *FileCache[vmeta], k CacheKey, data []byte, exp, access time.Time, ver int64) {
	m := &EntryMetadata[vmeta]{TimeWritten: access, LastAccess: access, Expires: exp, Size: int64(len(data)), Object: vmeta{Ver: ver}}
	c.entriesMetadata[k] = m
	vFSPutFile("var/vcache/"+k.Hex, string(data))
	c.byteSize.Add(int64(len(data)))
	metrics.Global.Cache.BytesCached.Add(int64(len(data)))
	metrics.Global.Cache.CacheEntries.Add(1)
}

// readAll drains an entry's data handle from its current position.
func readAll(d EntryData) ([]byte, error) {
	var out []byte
	buf := make([]byte, 4)
	for i := 0; i < 16; i++ {
		n, err := d.Read(buf)
		out = append(out, buf[:n]...)
		if err == io.EOF {
			return out, nil
		}
		if err != nil {
			return out, err
		}
	}
	return out, errors.New("reader does not terminate")
}

func bytesEq(a, b []byte) bool { return string(a) == string(b) }


// vSecond / vSecondDone: the operation of a second request next to the operation under test.
// Default (conc=0): it runs atomically at any one scheduling point of the main thread
// (vInterpose).  With conc=n: it runs concurrently, every interleaving with at most n switches
// to it is explored (vConcurrent), and it is joined afterwards.  vSecondDone reports whether the
// two really overlapped / the second one ran in the middle.
func vSecond(f func()) {
	if n := vParam("conc", 0); n > 0 {
		vConcurrent(f, n)
		return
	}
	vInterpose(f, vParam("interpose", 1))
}

func vSecondDone() bool {
	if vParam("conc", 0) > 0 {
		vJoin()
		return vInterposed() > 0
	}
	vInterpose(nil, 0)
	return vInterposed() > 0
}
