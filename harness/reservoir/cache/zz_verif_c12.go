package cache

import (
	"context"
	"reservoir/metrics"
	"time"
)

// C12: one inductive step from an arbitrary valid state.  Invariant I:
//   byteSize == sum of Size over the entries in the map  &&  byteSize >= 0
//   metrics.BytesCached == byteSize  &&  metrics.CacheEntries == number of entries
//   (file) directory holds exactly one file per entry, of length Size
//   every entry Get returns announces Size == bytes readable

func memInvariant(c *MemoryCache[vmeta], where string) {
	var sum int64
	n := 0
	for _, e := range c.entries {
		sum += e.meta.Size
		n++
		vAssert(e.meta.Size == int64(len(e.data)), "c12.mem."+where+".size-field-differs-from-stored-bytes")
	}
	vAssert(c.byteSize.Get() == sum, "c12.mem."+where+".bytesize-differs-from-stored-total")
	vAssert(c.byteSize.Get() >= 0, "c12.mem."+where+".bytesize-negative")
	vAssert(metrics.Global.Cache.BytesCached.Get() == sum, "c12.mem."+where+".reported-bytes-differ-from-stored-total")
	vAssert(metrics.Global.Cache.CacheEntries.Get() == int64(n), "c12.mem."+where+".reported-entry-count-differs")
}

func fileInvariant(c *FileCache[vmeta], where string) {
	var sum int64
	n := 0
	for k, m := range c.entriesMetadata {
		sum += m.Size
		n++
		vAssert(vFSExists("var/vcache/"+k.Hex), "c12.file."+where+".entry-without-file")
		vAssert(int64(len(vFSContent("var/vcache/"+k.Hex))) == m.Size, "c12.file."+where+".size-field-differs-from-file-length")
	}
	if !vFSRemoveFaulted() {
		// after a failed unlink the directory may keep a stray file that no code can remove;
		// only then are the directory-level clauses not demanded
		vAssert(vFSCount("var/vcache") == n, "c12.file."+where+".files-without-entry")
		vAssert(int64(vFSBytes("var/vcache")) == sum, "c12.file."+where+".directory-bytes-differ")
	}
	vAssert(c.byteSize.Get() == sum, "c12.file."+where+".bytesize-differs-from-stored-total")
	vAssert(c.byteSize.Get() >= 0, "c12.file."+where+".bytesize-negative")
	vAssert(metrics.Global.Cache.BytesCached.Get() == sum, "c12.file."+where+".reported-bytes-differ-from-stored-total")
	vAssert(metrics.Global.Cache.CacheEntries.Get() == int64(n), "c12.file."+where+".reported-entry-count-differs")
}

func symBody(max int) []byte { return symBytes(symRange(0, max)) }

const (
	opStoreAbsent = iota
	opOverwrite
	opStoreFailing
	opStoreEmpty
	opDelete
	opGet
	opUpdate
	opCleanExpired
	opEvict
	opEnsureSize
	opCount
)

var opNames = [opCount]string{"store", "overwrite", "failing-store", "empty-store", "delete", "get", "update-metadata", "clean-expired", "evict", "ensure-size"}

// HarnessMemStep: arbitrary valid state over 3 keys, then one operation.
func HarnessMemStep() {
	shards := symRange(1, vParam("maxshards", 2))
	limit := int64(100)
	if symChoice(2) == 1 {
		limit = 2 // small enough for the store-triggered and periodic eviction paths
	}
	nk := vParam("keys", 2)
	c := newMem(shards, limit)
	vClockFreeze(true) // time only matters through Expires here
	t0 := time.Now()
	for i := 0; i < nk; i++ {
		if n := symRange(0, 2); n > 0 {
			putMem(c, vKeys[i], symBytes(n), symTime(), t0, int64(i))
		}
	}
	op := symChoice(opCount)
	name := opNames[op]
	k := vKeys[symChoice(nk)]
	_, present := c.entries[k]
	switch op {
	case opStoreAbsent, opOverwrite:
		if (op == opOverwrite) != present {
			return
		}
		body := symBytes(symRange(1, vParam("body", 2)))
		e, err := c.Cache(k, &symReader{data: body, failAt: -1}, symTime(), vmeta{Ver: 9})
		if err == nil {
			got, rerr := readAll(e.Data)
			vAssert(rerr == nil && bytesEq(got, body) && e.Metadata.Size == int64(len(body)), "c12.mem.store-readback-differs")
		}
	case opStoreFailing:
		body := symBytes(symRange(1, vParam("body", 2)))
		_, err := c.Cache(k, &symReader{data: body, failAt: symRange(0, len(body)-1)}, symTime(), vmeta{Ver: 9})
		if c.byteSize.Get() < limit {
			vAssert(err != nil, "c12.mem.failed-transfer-stored")
		}
	case opStoreEmpty:
		c.Cache(k, &symReader{failAt: -1}, symTime(), vmeta{Ver: 9})
	case opDelete:
		c.Delete(k)
	case opGet:
		e, err := c.Get(k)
		if err == nil {
			got, rerr := readAll(e.Data)
			vAssert(rerr == nil && int64(len(got)) == e.Metadata.Size, "c12.mem.get-size-differs-from-readable-bytes")
		}
	case opUpdate:
		c.UpdateMetadata(k, func(m *EntryMetadata[vmeta]) { m.Expires = symTime() })
	case opCleanExpired:
		c.janitor.cleanExpiredEntries()
	case opEvict:
		c.janitor.evict(limit)
	case opEnsureSize:
		c.janitor.ensureCacheSize()
	}
	vReach("op-" + name)
	memInvariant(c, name)
}

// HarnessFileStep: the same over the file backend and the file-system model, with one
// injected file-system fault at an arbitrary call.
func HarnessFileStep() {
	shards := symRange(1, vParam("maxshards", 2))
	limit := int64(100)
	if symChoice(2) == 1 {
		limit = 2
	}
	nk := vParam("keys", 2)
	c := newFile(shards, limit)
	vClockFreeze(true)
	t0 := time.Now()
	for i := 0; i < nk; i++ {
		if n := symRange(0, 2); n > 0 {
			putFile(c, vKeys[i], symBytes(n), symTime(), t0, int64(i))
		}
	}
	op := symChoice(opCount)
	name := opNames[op]
	k := vKeys[symChoice(nk)]
	_, present := c.entriesMetadata[k]
	vFSFaults(vParam("faults", 1))
	switch op {
	case opStoreAbsent, opOverwrite:
		if (op == opOverwrite) != present {
			return
		}
		body := symBytes(symRange(1, vParam("body", 2)))
		e, err := c.Cache(k, &symReader{data: body, failAt: -1}, symTime(), vmeta{Ver: 9})
		if err == nil {
			got, rerr := readAll(e.Data)
			vAssert(rerr == nil && bytesEq(got, body) && e.Metadata.Size == int64(len(body)), "c12.file.store-readback-differs")
		}
	case opStoreFailing:
		body := symBytes(symRange(1, vParam("body", 2)))
		_, err := c.Cache(k, &symReader{data: body, failAt: symRange(0, len(body)-1)}, symTime(), vmeta{Ver: 9})
		vAssert(err != nil, "c12.file.failed-transfer-stored")
	case opStoreEmpty:
		_, err := c.Cache(k, &symReader{failAt: -1}, symTime(), vmeta{Ver: 9})
		vAssert(err != nil, "c12.file.empty-body-stored")
	case opDelete:
		c.Delete(k)
	case opGet:
		e, err := c.Get(k)
		if err == nil {
			got, rerr := readAll(e.Data)
			vAssert(rerr == nil && int64(len(got)) == e.Metadata.Size, "c12.file.get-size-differs-from-readable-bytes")
		}
	case opUpdate:
		c.UpdateMetadata(k, func(m *EntryMetadata[vmeta]) { m.Expires = symTime() })
	case opCleanExpired:
		c.janitor.cleanExpiredEntries()
	case opEvict:
		c.janitor.evict(limit)
	case opEnsureSize:
		c.janitor.ensureCacheSize()
	}
	vReach("op-" + name)
	if vFSFaulted() {
		name += "+fs-fault"
	}
	fileInvariant(c, name)
}

// HarnessFileRestart: a file cache opened over a dirty directory starts empty and consistent.
func HarnessFileRestart() {
	n := symRange(0, 3)
	for i := 0; i < n; i++ {
		vFSPutFile("var/vcache/"+vKeys[i].Hex, string(symBytes(symRange(0, 2))))
	}
	if symBool() {
		vFSPutFile("var/vcache/stray.tmp", "x")
	}
	c := newFile(2, 100)
	vReach("reopened")
	fileInvariant(c, "restart")
	_, err := c.Get(vKeys[0])
	vAssert(err != nil, "c12.file.restart.stale-entry-served")
	_ = time.Now
}

// "all interleavings of concurrent operations ending in quiescence": one operation of another
// request (store / failing store / delete of the same or another key, a cleanup cycle, an
// eviction) is placed at every lock and file-system boundary of a store, overwrite, failing
// store or delete; once both have returned the invariant I holds.
func stepInterleaved(mem *MemoryCache[vmeta], file *FileCache[vmeta]) {
	var c cacheUnderTest = mem
	if mem == nil {
		c = file
	}
	vClockFreeze(true)
	now := time.Now()
	if symChoice(2) == 1 {
		c.Cache(vKeys[0], &symReader{data: []byte{1, 1}, failAt: -1}, now.Add(time.Hour), vmeta{Ver: 1})
		vReach("key-present")
	}
	same := symChoice(2) == 1
	k2 := vKeys[1]
	if same {
		k2 = vKeys[0]
		vReach("same-key")
	}
	kind := symChoice(5)
	vSecond(func() {
		switch kind {
		case 0:
			c.Cache(k2, &symReader{data: []byte{9, 9, 9}, failAt: -1}, now.Add(time.Hour), vmeta{Ver: 9})
		case 1:
			c.Cache(k2, &symReader{data: []byte{9, 9, 9}, failAt: 1}, now.Add(time.Hour), vmeta{Ver: 9})
		case 2:
			c.Delete(k2)
		case 3:
			if mem != nil {
				mem.janitor.cleanExpiredEntries()
			} else {
				file.janitor.cleanExpiredEntries()
			}
		default:
			if mem != nil {
				mem.janitor.evict(1)
			} else {
				file.janitor.evict(1)
			}
		}
	})
	name := ""
	switch symChoice(3) {
	case 0:
		c.Cache(vKeys[0], &symReader{data: []byte{5, 5, 5, 5}, failAt: -1, chunk: 2}, now.Add(time.Hour), vmeta{Ver: 5})
		name = "store"
	case 1:
		c.Cache(vKeys[0], &symReader{data: []byte{5, 5, 5, 5}, failAt: 2, chunk: 2}, now.Add(time.Hour), vmeta{Ver: 5})
		name = "failing-store"
	default:
		c.Delete(vKeys[0])
		name = "delete"
	}
	overlapped := vSecondDone()
	vReach("op-" + name)
	if !overlapped {
		return
	}
	vReach("interleaved")
	if mem != nil {
		memInvariant(mem, "interleaved-"+name)
	} else {
		fileInvariant(file, "interleaved-"+name)
	}
}

func HarnessMemStepInterleaved()  { stepInterleaved(newMem(symRange(1, 2), 1<<30), nil) }
func HarnessFileStepInterleaved() { stepInterleaved(nil, newFile(symRange(1, 2), 1<<30)) }

// HarnessFileRestartNames: "abandonment of a file cache at any point followed by reopening the
// directory", for cache directory names an operator may well choose - plain ones and ones with
// characters that mean something to pattern matchers.  After the reopening the directory is
// empty and the counters are zero; storing and deleting a key the previous life had stored
// keeps the books right (never negative).
func HarnessFileRestartNames() {
	dirs := []string{"var/vcache", "var/v[1]cache", "var/cache[1]", "var/ca*he", "var/c?che", "var/a b"}
	dir := dirs[symChoice(len(dirs))]
	n := symRange(0, 2)
	for i := 0; i < n; i++ {
		vFSPutFile(dir+"/"+vKeys[i].Hex, "old")
	}
	if symChoice(2) == 1 {
		vFSPutFile(dir+"/stray.tmp", "x")
	}
	resetMetrics()
	c := NewFileCache[vmeta](newCfg(100), dir, 100, time.Hour, 2, context.Background())
	vDropPending()
	vReach("reopened")
	check := func(where string, wantEntries int, wantBytes int64) {
		vAssert(vFSCount(dir) == wantEntries, "c12.file."+where+".files-without-entry")
		vAssert(int64(vFSBytes(dir)) == wantBytes, "c12.file."+where+".directory-bytes-differ")
		vAssert(len(c.entriesMetadata) == wantEntries, "c12.file."+where+".entry-without-file")
		vAssert(c.byteSize.Get() == wantBytes, "c12.file."+where+".bytesize-differs-from-stored-total")
		vAssert(metrics.Global.Cache.BytesCached.Get() == wantBytes, "c12.file."+where+".reported-bytes-differ-from-stored-total")
		vAssert(metrics.Global.Cache.CacheEntries.Get() == int64(wantEntries), "c12.file."+where+".reported-entry-count-differs")
	}
	check("restart", 0, 0)
	vClockFreeze(true)
	now := time.Now()
	_, err := c.Cache(vKeys[0], &symReader{data: []byte("n"), failAt: -1}, now.Add(time.Hour), vmeta{Ver: 1})
	vAssert(err == nil, "c12.file.restart.store-fails-after-reopen")
	check("restart-store", 1, 1)
	c.Delete(vKeys[0])
	check("restart-delete", 0, 0)
}
