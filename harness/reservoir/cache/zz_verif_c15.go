package cache

import (
	"context"
	"time"

	"reservoir/utils/duration"
)

// C15: happens-before race analysis over pairs of operations that run concurrently in the
// real program.  Thread 1 runs op1; one operation of a second request (op2) runs, atomically,
// at any lock / file-system boundary of op1; the janitor's cycle bodies count as operations.
// vRaceBegin() is the fork point (everything before it happens-before both threads).

type opFn func()

func cacheOps(c cacheUnderTest, mem *MemoryCache[vmeta], file *FileCache[vmeta], now time.Time) ([]string, []opFn) {
	k := vKeys[0]
	names := []string{"get", "get-metadata", "update-metadata", "store", "delete", "clean-expired", "evict", "use-returned-metadata"}
	var held *EntryMetadata[vmeta]
	if mem != nil {
		if e, ok := mem.entries[k]; ok {
			held = e.meta
		}
	} else if m, ok := file.entriesMetadata[k]; ok {
		held = m
	}
	ops := []opFn{
		func() { c.Get(k) },
		func() {
			if mem != nil {
				mem.GetMetadata(k)
			} else {
				file.GetMetadata(k)
			}
		},
		func() {
			if mem != nil {
				mem.UpdateMetadata(k, revalidationModifier(now))
			} else {
				file.UpdateMetadata(k, revalidationModifier(now))
			}
		},
		func() { c.Cache(k, &symReader{data: []byte{3}, failAt: -1}, now.Add(time.Hour), vmeta{Ver: 3}) },
		func() { c.Delete(k) },
		func() {
			if mem != nil {
				mem.janitor.cleanExpiredEntries()
			} else {
				file.janitor.cleanExpiredEntries()
			}
		},
		func() {
			if mem != nil {
				mem.janitor.evict(1)
			} else {
				file.janitor.evict(1)
			}
		},
		// a request that obtained the entry earlier still reads its live metadata (what
		// makeCacheStatusHeader / getCurrentAge / handleRangeRequest do after Get returned)
		func() { callerReadsLiveMetadata(held, now) },
	}
	return names, ops
}

// revalidationModifier is what handleUpstream304 passes to UpdateMetadata.
func revalidationModifier(now time.Time) func(*EntryMetadata[vmeta]) {
	return func(m *EntryMetadata[vmeta]) { m.Expires = now.Add(time.Minute) }
}

// callerReadsLiveMetadata: the reads makeCacheStatusHeader / getCurrentAge / handleRangeRequest
// perform on Entry.Metadata after Get has returned (and released the key lock).
func callerReadsLiveMetadata(held *EntryMetadata[vmeta], now time.Time) {
	if held != nil {
		_ = held.Expires.Before(now)
		_ = held.TimeWritten
		_ = held.Size
		_ = held.Object.Ver
	}
}

func racePairs(c cacheUnderTest, mem *MemoryCache[vmeta], file *FileCache[vmeta]) {
	vClockFreeze(true)
	now := time.Now()
	exp := now.Add(time.Hour)
	if symChoice(2) == 1 {
		exp = now.Add(-time.Second)
	}
	c.Cache(vKeys[0], &symReader{data: []byte{1, 2}, failAt: -1}, exp, vmeta{Ver: 1})
	c.Cache(vKeys[1], &symReader{data: []byte{4}, failAt: -1}, now.Add(time.Hour), vmeta{Ver: 4})
	names, ops := cacheOps(c, mem, file, now)
	i := symChoice(len(ops))
	j := symChoice(len(ops))
	vRaceBegin()
	vInterpose(ops[j], vParam("interpose", 1))
	ops[i]()
	vInterpose(nil, 0)
	vRaceEnd()
	if vInterposed() > 0 {
		vReach("pair-ran")
		vReach("op1-" + names[i])
		vReach("op2-" + names[j])
	}
}

func HarnessRacePairsMem()  { c := newMem(symRange(1, 2), 1<<30); racePairs(c, c, nil) }
func HarnessRacePairsFile() { c := newFile(symRange(1, 2), 1<<30); racePairs(c, nil, c) }

// HarnessRaceConfigChange: a run-time change of the memory budget / limit (delivered in its
// own goroutine by event.Fire) against a store.
func HarnessRaceConfigChange() {
	c := newMem(2, 1<<30)
	cfg := kitCfg
	vClockFreeze(true)
	now := time.Now()
	vRaceBegin()
	if symChoice(2) == 0 {
		cfg.Cache.Memory.MemoryBudgetPercent.Stage(50)
		cfg.Cache.Memory.MemoryBudgetPercent.CommitStaged()
		vReach("budget-changed")
	} else {
		cfg.Cache.MaxCacheSize.Stage(bytesizeOf(1 << 20))
		cfg.Cache.MaxCacheSize.CommitStaged()
		vReach("limit-changed")
	}
	// the notification goroutine is queued; it may run at any lock boundary of the store
	n := vPendingCount()
	vInterpose(func() { vRunPending() }, vParam("interpose", 1))
	c.Cache(vKeys[0], &symReader{data: []byte{1}, failAt: -1}, now.Add(time.Hour), vmeta{})
	vInterpose(nil, 0)
	vRunPending()
	vRaceEnd()
	if n > 0 && vInterposed() > 0 {
		vReach("notification-ran-during-store")
	}
}

// HarnessRaceJanitorLoop: the janitor's own goroutine (ticker loop) against the goroutines
// that talk to it: interval-change listeners (one per change), the operator's stop, and a
// store on the request path while a cycle runs.  The janitor loop is started and waits; then
// two interval changes, a ticker tick (a full cleanup cycle inside the loop goroutine) and the
// stop happen with their goroutines scheduled in a chosen order.  Channel sends/receives and
// close are happens-before edges.
func HarnessRaceJanitorLoop() {
	resetMetrics()
	vSetSysMem(1 << 40)
	cfg := newCfg(1 << 30)
	var mem *MemoryCache[vmeta]
	var file *FileCache[vmeta]
	if symChoice(2) == 0 {
		mem = NewMemoryCache[vmeta](cfg, 50, 1<<30, time.Hour, 2, context.Background())
	} else {
		file = NewFileCache[vmeta](cfg, "var/vcache", 1<<30, time.Hour, 2, context.Background())
	}
	vRunPendingAt(0) // the janitor loop starts and waits
	vClockFreeze(true)
	now := time.Now()
	vRaceBegin()
	change := func(m int) {
		cfg.Cache.CleanupInterval.Stage(duration.Duration(time.Duration(m) * time.Minute))
		cfg.Cache.CleanupInterval.CommitStaged()
	}
	change(5)
	if symChoice(2) == 1 {
		vRunPending() // listener 1 hands over, the loop takes it
		vReach("first-change-taken-before-second")
	}
	change(7)
	if symChoice(2) == 1 {
		vTick() // the ticker fires: the loop will run a cleanup cycle when scheduled
		vReach("tick")
	}
	if symChoice(2) == 1 {
		// a store on the request path before the loop goroutine gets to run
		if mem != nil {
			mem.Cache(vKeys[0], &symReader{data: []byte{1}, failAt: -1}, now.Add(time.Hour), vmeta{})
		} else {
			file.Cache(vKeys[0], &symReader{data: []byte{1}, failAt: -1}, now.Add(time.Hour), vmeta{})
		}
		vReach("store")
	}
	vRunPending()
	if symChoice(2) == 1 {
		if mem != nil {
			mem.Destroy()
		} else {
			file.Destroy()
		}
		vReach("stopped")
		vRunPending()
	}
	vRaceEnd()
}
