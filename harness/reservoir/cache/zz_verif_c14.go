package cache

import (
	"context"
	"time"

	"reservoir/utils/duration"
)

// C14(A): lock-discipline premises, checked on every path of every single operation from a
// valid state with an arbitrary subset of shard locks (and the map lock) held by others:
//  1. a blocking acquire of a shard lock happens only while the thread holds no lock;
//     while a shard lock is held other shard locks are only TryLock'ed;
//  2. the map lock mu is innermost: while it is held nothing is acquired, no I/O, no channel op;
//  3. every path releases what it acquired.
// From 1-3 the wait-for graph is acyclic for any number of threads (DESIGN §C14).

func HarnessLockDisciplineMem() {
	shards := symRange(1, vParam("maxshards", 3))
	limit := int64(100)
	if symChoice(2) == 1 {
		limit = 2
	}
	c := newMem(shards, limit)
	vClockFreeze(true)
	now := time.Now()
	for i := 0; i < vParam("keys", 3); i++ {
		if n := symRange(0, 2); n > 0 {
			exp := now.Add(time.Hour)
			if symChoice(2) == 1 {
				exp = now.Add(-time.Second)
			}
			putMem(c, vKeys[i], symBytes(n), exp, now, int64(i))
		}
	}
	// locks held by other parties
	switch symChoice(3) {
	case 1:
		vHoldLock(getLock(c.locks, vKeys[symChoice(vParam("keys", 3))]), true)
	case 2:
		vHoldLock(&c.mu, symChoice(2) == 1)
	}
	vLockMonitor(".mu")
	k := vKeys[symChoice(vParam("keys", 3))]
	switch symChoice(8) {
	case 0:
		c.Cache(k, &symReader{data: symBytes(symRange(0, 2)), failAt: -1}, now.Add(time.Hour), vmeta{})
		vReach("store")
	case 1:
		c.Get(k)
		vReach("get")
	case 2:
		c.Delete(k)
		vReach("delete")
	case 3:
		c.UpdateMetadata(k, func(m *EntryMetadata[vmeta]) { m.Expires = now })
		vReach("update")
	case 4:
		c.GetMetadata(k)
		vReach("get-metadata")
	case 5:
		c.janitor.cleanExpiredEntries()
		vReach("clean-expired")
	case 6:
		c.janitor.ensureCacheSize()
		vReach("ensure-size")
	case 7:
		c.Destroy()
		vReach("destroy")
	}
	vAssert(vLocksLeaked() == 0, "c14.lock-leaked")
}

func HarnessLockDisciplineFile() {
	shards := symRange(1, vParam("maxshards", 3))
	limit := int64(100)
	if symChoice(2) == 1 {
		limit = 2
	}
	c := newFile(shards, limit)
	vClockFreeze(true)
	now := time.Now()
	for i := 0; i < vParam("keys", 3); i++ {
		if n := symRange(0, 2); n > 0 {
			exp := now.Add(time.Hour)
			if symChoice(2) == 1 {
				exp = now.Add(-time.Second)
			}
			putFile(c, vKeys[i], symBytes(n), exp, now, int64(i))
		}
	}
	switch symChoice(3) {
	case 1:
		vHoldLock(getLock(c.locks, vKeys[symChoice(vParam("keys", 3))]), true)
	case 2:
		vHoldLock(&c.mu, symChoice(2) == 1)
	}
	vFSFaults(1)
	vLockMonitor(".mu")
	k := vKeys[symChoice(vParam("keys", 3))]
	switch symChoice(8) {
	case 0:
		c.Cache(k, &symReader{data: symBytes(symRange(0, 2)), failAt: -1}, now.Add(time.Hour), vmeta{})
		vReach("store")
	case 1:
		c.Get(k)
		vReach("get")
	case 2:
		c.Delete(k)
		vReach("delete")
	case 3:
		c.UpdateMetadata(k, func(m *EntryMetadata[vmeta]) { m.Expires = now })
		vReach("update")
	case 4:
		c.GetMetadata(k)
		vReach("get-metadata")
	case 5:
		c.janitor.cleanExpiredEntries()
		vReach("clean-expired")
	case 6:
		c.janitor.ensureCacheSize()
		vReach("ensure-size")
	case 7:
		c.Destroy()
		vReach("destroy")
	}
	vAssert(vLocksLeaked() == 0, "c14.lock-leaked")
}

// C14 with a second thread: one operation of another request (refresh, delete, read) runs
// at any lock / file-system boundary of a janitor cycle or cache operation.  Afterwards no
// lock is left held, and every key can still be read and stored (nothing blocks forever).
func lockLeakInterleaved(mem *MemoryCache[vmeta], file *FileCache[vmeta]) {
	var c cacheUnderTest = mem
	if mem == nil {
		c = file
	}
	vClockFreeze(true)
	now := time.Now()
	nk := vParam("keys", 2)
	for i := 0; i < nk; i++ {
		exp := now.Add(time.Hour)
		if symChoice(2) == 1 {
			exp = now.Add(-time.Second)
		}
		c.Cache(vKeys[i], &symReader{data: []byte{byte(i), 1}, failAt: -1}, exp, vmeta{Ver: int64(i)})
	}
	k2 := vKeys[symChoice(nk)]
	kinds := 5
	if mem != nil {
		kinds = 6 // + the memory budget is lowered below what is stored
	}
	kind := symChoice(kinds)
	cfg := kitCfg
	vSecond(func() {
		switch kind {
		case 0:
			c.Cache(k2, &symReader{data: []byte{9}, failAt: -1}, now.Add(time.Hour), vmeta{Ver: 9})
		case 1:
			c.Delete(k2)
		case 2:
			c.Get(k2)
		case 3:
			// another request stores a new resource (and so may fill the cache up again)
			c.Cache(vKeys[nk], &symReader{data: []byte{8, 8}, failAt: -1}, now.Add(time.Hour), vmeta{Ver: 8})
		case 4:
			// the operator lowers the limit; the listener goroutines run at once
			cfg.Cache.MaxCacheSize.Stage(bytesizeOf(2))
			cfg.Cache.MaxCacheSize.CommitStaged()
			vRunPending()
		default:
			// ... or the memory budget, to nothing
			cfg.Cache.Memory.MemoryBudgetPercent.Stage(0)
			cfg.Cache.Memory.MemoryBudgetPercent.CommitStaged()
			vRunPending()
			vReach("budget-lowered")
		}
	})
	switch symChoice(4) {
	case 0:
		if mem != nil {
			mem.janitor.cleanExpiredEntries()
		} else {
			file.janitor.cleanExpiredEntries()
		}
		vReach("clean-expired")
	case 1:
		if mem != nil {
			mem.janitor.evict(1)
		} else {
			file.janitor.evict(1)
		}
		vReach("evict")
	case 2:
		c.Cache(vKeys[symChoice(nk)], &symReader{data: []byte{5}, failAt: -1}, now.Add(time.Hour), vmeta{Ver: 5})
		vReach("store")
	default:
		c.Delete(vKeys[symChoice(nk)])
		vReach("delete")
	}
	if vSecondDone() {
		vReach("second-thread-ran")
	}
	vAssert(vLocksLeaked() == 0 && vThread2LocksLeaked() == 0, "c14.lock-leaked")
	// liveness afterwards: every key can be read and written (a leaked lock shows as a
	// deadlock.lock-never-released / deadlock.self-lock violation here)
	for i := 0; i < nk; i++ {
		c.Get(vKeys[i])
		c.Cache(vKeys[i], &symReader{data: []byte{7}, failAt: -1}, now.Add(time.Hour), vmeta{Ver: 7})
	}
	vReach("still-live")
}

// the limit is either far away or so small that the stores of the harness find the cache full
// (store-triggered eviction runs inside the operation under test and inside the interposed one)
func leakLimit() int64 {
	if symChoice(2) == 1 {
		vReach("small-limit")
		return 4
	}
	return 1 << 30
}

func HarnessLockLeakInterleavedMem()  { lockLeakInterleaved(newMem(symRange(1, 2), leakLimit()), nil) }
func HarnessLockLeakInterleavedFile() { lockLeakInterleaved(nil, newFile(symRange(1, 2), leakLimit())) }

// HarnessStopNeverBlocks: "stopping the cache never blocks".  The cache (either backend) is
// started with a live or an already cancelled context; the janitor loop is run (it exits on a
// cancelled context, otherwise waits) or not yet scheduled; up to three interval / limit
// changes arrive, each with its listener goroutines run at once or left for later; then the
// cache is destroyed.  Destroy returns in every such history, the goroutines scheduled after
// it do not panic, and a second Destroy is harmless.
func HarnessStopNeverBlocks() {
	resetMetrics()
	vSetSysMem(1 << 40)
	cfg := newCfg(1 << 30)
	ctx := context.Background()
	cancelled := symChoice(2) == 1
	if cancelled {
		ctx = vCancelledCtx()
	}
	var destroy func()
	if symChoice(2) == 0 {
		c := NewMemoryCache[vmeta](cfg, 100, 1<<30, time.Hour, 2, ctx)
		destroy = c.Destroy
	} else {
		c := NewFileCache[vmeta](cfg, "var/vcache", 1<<30, time.Hour, 2, ctx)
		destroy = c.Destroy
	}
	vAssert(vPendingCount() == 1, "c14.janitor-goroutine-not-started")
	if symChoice(2) == 1 {
		vRunPendingAt(0) // the janitor loop: returns if the context is cancelled, else waits
		if cancelled {
			vReach("janitor-exited-before-stop")
		}
	}
	n := int(vParam("changes", 2))
	for i := 0; i < n; i++ {
		switch symChoice(3) {
		case 0:
			cfg.Cache.CleanupInterval.Stage(duration.Duration(time.Duration(i+1) * time.Minute))
			cfg.Cache.CleanupInterval.CommitStaged()
			vReach("interval-change")
		case 1:
			cfg.Cache.MaxCacheSize.Stage(bytesizeOf(int64(i+1) << 20))
			cfg.Cache.MaxCacheSize.CommitStaged()
			vReach("limit-change")
		case 2:
			continue
		}
		if symChoice(2) == 1 {
			vRunPending() // listeners (and a not yet scheduled janitor loop) run now
		}
	}
	blocked := vBlocks(destroy)
	vAssert(!blocked, "c14.destroy-blocks")
	if blocked {
		return
	}
	vReach("destroyed")
	late := vPanics(func() { vRunPending() }) // whatever was still queued is scheduled after the stop
	vAssert(!late, "c14.goroutine-panics-after-stop")
	again := vPanics(func() { blocked = vBlocks(destroy) })
	vAssert(!again && !blocked, "c14.second-destroy-panics-or-blocks")
}

// HarnessConcurrentOps (C14 B): two cache operations run CONCURRENTLY - every interleaving at
// lock and file-system boundaries with a bounded number of switches between the two threads
// (not just "the second one runs atomically somewhere").  Neither thread ends up waiting for
// ever, nothing stays locked, and every key can be read and written afterwards.
func concurrentOps(mem *MemoryCache[vmeta], file *FileCache[vmeta]) {
	var c cacheUnderTest = mem
	if mem == nil {
		c = file
	}
	vClockFreeze(true)
	now := time.Now()
	for i := 0; i < 2; i++ {
		exp := now.Add(time.Hour)
		if i == 0 && symChoice(2) == 1 {
			exp = now.Add(-time.Second)
		}
		c.Cache(vKeys[i], &symReader{data: []byte{byte(i), 1}, failAt: -1}, exp, vmeta{Ver: int64(i)})
	}
	op := func(kind int, k CacheKey, ver int64) {
		switch kind {
		case 0:
			c.Cache(k, &symReader{data: []byte{9, 9}, failAt: -1, chunk: 1}, now.Add(time.Hour), vmeta{Ver: ver})
		case 1:
			c.Delete(k)
		case 2:
			c.Get(k)
		case 3:
			if mem != nil {
				mem.janitor.cleanExpiredEntries()
			} else {
				file.janitor.cleanExpiredEntries()
			}
		default:
			if mem != nil {
				mem.janitor.evict(1)
			} else {
				file.janitor.evict(1)
			}
		}
	}
	k2 := vKeys[symChoice(2)]
	kind2 := symChoice(3)
	vConcurrent(func() { op(kind2, k2, 8) }, vParam("switches", 2))
	op(symChoice(5), vKeys[0], 5)
	vJoin()
	if vInterposed() > 0 {
		vReach("overlapped")
	}
	vAssert(vLocksLeaked() == 0, "c14.lock-leaked")
	// quiescence: the books are right (C12's invariant)
	if mem != nil {
		memInvariant(mem, "concurrent")
	} else {
		fileInvariant(file, "concurrent")
	}
	for i := 0; i < 2; i++ {
		c.Get(vKeys[i])
		c.Cache(vKeys[i], &symReader{data: []byte{7}, failAt: -1}, now.Add(time.Hour), vmeta{Ver: 7})
	}
	vReach("still-live")
}

func concShards() int {
	if vParam("tiny", 0) == 1 {
		return 1 // quick smoke: one shard (every pair of keys collides), limit far away
	}
	return symRange(1, 2)
}

func concLimit() int64 {
	if vParam("tiny", 0) == 1 {
		return 1 << 30
	}
	return leakLimit()
}

func HarnessConcurrentOpsMem()  { concurrentOps(newMem(concShards(), concLimit()), nil) }
func HarnessConcurrentOpsFile() { concurrentOps(nil, newFile(concShards(), concLimit())) }
