package cache

import "reservoir/utils/bytesize"

func bytesizeOf(n int64) bytesize.ByteSize { return bytesize.ByteSize(n) }
