package cache

import (
	"context"
	"reservoir/metrics"
	"reservoir/utils/duration"
	"reservoir/utils/bytesize"
	"sync"
	"time"
)

// C13: eviction order / stopping point / trigger, and exact expiry cleanup.

// putMeta installs an entry whose Size is symbolic (the eviction and cleanup code only ever
// looks at the metadata; the stored bytes are irrelevant to them).
func putMeta(c *MemoryCache[vmeta], k CacheKey, size int64, exp, access time.Time) {
	m := &EntryMetadata[vmeta]{TimeWritten: access, LastAccess: access, Expires: exp, Size: size}
	c.entries[k] = &memoryInternalEntry[vmeta]{meta: m}
	c.byteSize.Add(size)
	metrics.Global.Cache.BytesCached.Add(size)
	metrics.Global.Cache.CacheEntries.Add(1)
}

// symSize: 0 < size < 64 MiB with KiB granularity plus a sub-KiB part (so that both the
// MiB weight and non-unit-multiples occur).
func symSize() int64 {
	kib := int64(symUint16())
	low := int64(symByte())
	s := kib<<10 + low
	vAssume(s > 0)
	return s
}

func refPriority(now, access time.Time, size int64) int64 {
	return now.Sub(access).Milliseconds() + 100*(size/bytesize.UnitM)
}

// HarnessEvictOrder: n entries with symbolic sizes and access times, a symbolic subset of
// their shard locks held by someone else, every map-iteration order; one evict(limit).
func HarnessEvictOrder() {
	n := vParam("entries", 3)
	limit := []int64{40 << 20, 10<<20 + 3, 1 << 20}[symChoice(3)]
	target := int64(float64(limit) * 0.8)
	shards := 4
	if symChoice(2) == 1 {
		shards = 1
	}
	c := newMem(shards, limit)
	vClockFreeze(true)
	now := time.Now()
	var size [4]int64
	var prio [4]int64
	var locked [4]bool
	for i := 0; i < n; i++ {
		size[i] = symSize()
		age := time.Duration(symUint16())*time.Millisecond + time.Duration(symByte())*time.Microsecond
		access := now.Add(-age)
		prio[i] = refPriority(now, access, size[i])
		putMeta(c, vKeys[i], size[i], symTime(), access)
	}
	someoneElse := symChoice(2) == 1
	for i := 0; i < n; i++ {
		if someoneElse && symChoice(2) == 1 {
			vHoldLock(getLock(c.locks, vKeys[i]), true)
		}
	}
	for i := 0; i < n; i++ {
		locked[i] = !vLockFree(getLock(c.locks, vKeys[i])) // after all holds: shards may be shared
	}
	before := c.byteSize.Get()
	c.janitor.evict(limit)
	after := c.byteSize.Get()
	vReach("evicted")
	var gone [4]bool
	nGone := 0
	var removed int64
	for i := 0; i < n; i++ {
		_, present := c.entries[vKeys[i]]
		gone[i] = !present
		if gone[i] {
			nGone++
			removed += size[i]
			vAssert(!locked[i], "c13.evict.removed-an-entry-in-use")
		}
	}
	vAssert(after == before-removed, "c13.evict.size-accounting")
	if before <= target {
		vReach("already-under-target")
		vAssert(nGone == 0, "c13.evict.removed-although-under-target")
		return
	}
	// order: no kept, unlocked entry has a strictly higher priority than an evicted one
	for i := 0; i < n; i++ {
		for j := 0; j < n; j++ {
			if gone[i] && !gone[j] && !locked[j] {
				vAssert(prio[j] <= prio[i], "c13.evict.kept-a-higher-priority-entry")
			}
		}
	}
	// stop: under target, or every unlocked candidate is gone
	allUnlockedGone := true
	for i := 0; i < n; i++ {
		if !locked[i] && !gone[i] {
			allUnlockedGone = false
		}
	}
	vAssert(after <= target || allUnlockedGone, "c13.evict.stopped-above-target")
	// necessity: the lowest-priority victim was needed to get under the target
	if nGone > 0 {
		vReach("victims")
		needed := false
		for i := 0; i < n; i++ {
			if !gone[i] {
				continue
			}
			lowest := true
			for j := 0; j < n; j++ {
				if gone[j] && prio[j] < prio[i] {
					lowest = false
				}
			}
			if lowest && after+size[i] > target {
				needed = true
			}
		}
		vAssert(needed, "c13.evict.evicted-more-than-needed")
	}
}

// HarnessEvictTrigger: ensureCacheSize / a store evict iff the cache is at or over its limit.
func HarnessEvictTrigger() {
	limit := int64(10 << 20)
	c := newMem(4, limit)
	vClockFreeze(true)
	now := time.Now()
	putMeta(c, vKeys[0], symSize(), now.Add(time.Hour), now.Add(-time.Minute))
	putMeta(c, vKeys[1], symSize(), now.Add(time.Hour), now.Add(-time.Second))
	before := c.byteSize.Get()
	if symChoice(2) == 0 {
		c.janitor.ensureCacheSize()
		vReach("periodic")
	} else {
		c.Cache(vKeys[2], &symReader{data: []byte{1}, failAt: -1}, now.Add(time.Hour), vmeta{})
		vReach("store")
		if _, ok := c.entries[vKeys[2]]; ok {
			before++
		}
	}
	after := c.byteSize.Get()
	if before-boolInt(c.entries[vKeys[2]] != nil) < limit {
		vReach("below-limit")
		vAssert(c.entries[vKeys[0]] != nil && c.entries[vKeys[1]] != nil, "c13.trigger.evicted-below-limit")
	} else {
		vReach("at-or-over-limit")
		vAssert(after <= int64(float64(limit)*0.8)+1, "c13.trigger.not-evicted-down-to-80-percent")
	}
}

func boolInt(b bool) int64 {
	if b {
		return 1
	}
	return 0
}

// HarnessCleanExpired: one cleanup cycle removes exactly the entries whose lifetime has
// elapsed (and whose lock is free) and no fresh one.
func HarnessCleanExpired() {
	n := vParam("entries", 3)
	shards := 4
	if symChoice(2) == 1 {
		shards = 1
	}
	c := newMem(shards, 1<<30)
	vClockFreeze(true)
	now := time.Now()
	var exp [4]time.Time
	var locked [4]bool
	for i := 0; i < n; i++ {
		exp[i] = symTime()
		putMeta(c, vKeys[i], 1, exp[i], now)
	}
	if symChoice(2) == 1 {
		for i := 0; i < n; i++ {
			if symChoice(2) == 1 {
				vHoldLock(getLock(c.locks, vKeys[i]), true)
			}
		}
	}
	for i := 0; i < n; i++ {
		locked[i] = !vLockFree(getLock(c.locks, vKeys[i]))
	}
	c.janitor.cleanExpiredEntries()
	vReach("cleaned")
	for i := 0; i < n; i++ {
		_, present := c.entries[vKeys[i]]
		expired := exp[i].Before(now)
		if expired && !locked[i] {
			vAssert(!present, "c13.cleanup.expired-entry-kept")
		} else if !expired {
			vAssert(present, "c13.cleanup.fresh-entry-removed")
		}
	}
}

// HarnessCleanExpiredOverwriteRace: a fresh overwrite lands between the cleanup scan and
// its removal loop (interposed at the first lock lookup of the removal loop, the first
// instruction after the scan).
func HarnessCleanExpiredOverwriteRace() {
	c := newMem(4, 1<<30)
	vClockFreeze(true)
	now := time.Now()
	putMemRaw(c, vKeys[0], []byte{7}, now.Add(-time.Second), now, 1) // expired
	orig := c.janitor.cacheFns.getLock
	done := false
	c.janitor.cacheFns.getLock = func(k CacheKey) *sync.RWMutex {
		if !done {
			done = true
			// another request refreshes the entry right now
			_, err := c.Cache(vKeys[0], &symReader{data: []byte{8, 9}, failAt: -1}, now.Add(time.Hour), vmeta{Ver: 2})
			vAssert(err == nil, "c13.race.refresh-failed")
			vReach("refreshed-in-window")
		}
		return orig(k)
	}
	c.janitor.cleanExpiredEntries()
	e, ok := c.entries[vKeys[0]]
	vAssert(ok && e.meta.Object.Ver == 2, "c13.cleanup.fresh-overwrite-removed-by-stale-scan")
}

func putMemRaw(c *MemoryCache[vmeta], k CacheKey, data []byte, exp, access time.Time, ver int64) {
	putMem(c, k, data, exp, access, ver)
}

// HarnessLimitChange: a limit changed at run time governs the following store / cycle.
func HarnessLimitChange() {
	c := newMem(4, 100<<20)
	cfg := kitCfg
	vClockFreeze(true)
	now := time.Now()
	putMeta(c, vKeys[0], 20<<20, now.Add(time.Hour), now.Add(-time.Minute))
	putMeta(c, vKeys[1], 20<<20, now.Add(time.Hour), now.Add(-time.Second))
	// 40 MiB stored, limit 100 MiB: nothing to do
	c.janitor.ensureCacheSize()
	vAssert(len(c.entries) == 2, "c13.trigger.evicted-below-limit")
	// the operator lowers the limit to 30 MiB
	cfg.Cache.MaxCacheSize.Stage(bytesize.ByteSize(30 << 20))
	cfg.Cache.MaxCacheSize.CommitStaged()
	vRunPending()
	vReach("limit-lowered")
	vAssert(c.maxCacheSize.Get() == 30<<20, "c13.limit-change-not-followed-by-store-path")
	c.janitor.ensureCacheSize()
	vAssert(c.byteSize.Get() <= 24<<20, "c13.limit-change-not-followed-by-cleanup-cycle")
	_, old := c.entries[vKeys[0]]
	vAssert(!old, "c13.evict.kept-a-higher-priority-entry")
}

// HarnessIntervalChange: the real janitor goroutine (ticker loop) receives an interval
// change delivered by the config listener: the ticker follows the new interval.  A value
// that verify() refuses (<= 0) has, by the known C18 defect, already been delivered when
// the update is refused - this harness shows what it does to the janitor.
func HarnessIntervalChange() {
	resetMetrics()
	vSetSysMem(1 << 40)
	cfg := newCfg(1 << 30)
	c := NewMemoryCache[vmeta](cfg, 100, 1<<30, time.Hour, 2, context.Background())
	vAssert(vPendingCount() == 1, "c13.janitor-goroutine-not-started") // the janitor loop, not yet run
	d := time.Duration(symInt64())
	cfg.Cache.CleanupInterval.Stage(duration.Duration(d)) // what an API update does first
	vAssert(vPendingCount() == 2, "c19.listener-not-notified")
	vRunPendingAt(1) // the listener goroutine: hands the new interval to the janitor
	died := vPanics(func() { vRunPendingAt(0) }) // the janitor loop: picks it up, resets its ticker, waits again
	if d > 0 {
		vReach("positive-interval")
		vAssert(!died, "c13.interval-change-kills-janitor")
		vAssert(vTickerInterval() == d && c.janitor.interval == d, "c13.interval-change-not-followed")
	} else {
		vReach("refused-interval")
		vAssert(!died, "c18.refused-interval-reaches-the-janitor-and-kills-it")
	}
}

// HarnessEvictInterleaved: another request deletes an entry / stores a new one at any lock
// boundary of an eviction run: the run still stops as soon as (and not before) the LIVE
// size is at the target.
func HarnessEvictInterleaved() {
	limit := int64(1000)
	target := int64(800)
	c := newMem(4, limit)
	vClockFreeze(true)
	now := time.Now()
	n := 6 // 1200 bytes stored: two removals are needed without interference
	for i := 0; i < n; i++ {
		putMeta(c, vKeysN(i), 200, now.Add(time.Hour), now.Add(-time.Duration(n-i)*time.Minute)) // key 0 is the oldest
	}
	kind := symChoice(2)
	extra := CacheKey{Hex: "0000000feeee"}
	t := 0 // which eviction run is executing: the janitor's (0) or one started by the other request's store (1)
	vInterpose(func() {
		t = 1
		if kind == 0 {
			c.Delete(vKeysN(n - 1)) // the most recently used entry
		} else {
			c.Cache(extra, &symReader{data: make([]byte, 3), failAt: -1}, now.Add(time.Hour), vmeta{})
		}
		t = 0
	}, 1)
	// "stopping as soon as the target is reached" with other requests changing the size:
	// every removal must be decided on the LIVE size - the run reads the size afresh before each
	// removal and that reading is above the target (a reading made stale by a request that
	// lands between the reading and the removal is tolerated).
	remove := c.janitor.cacheFns.removeEntry
	size := c.janitor.cacheFns.getCacheSize
	var reads, lastRead [2]int64
	readsAtLastRemoval := [2]int64{-1, -1}
	c.janitor.cacheFns.getCacheSize = func() int64 {
		reads[t]++
		lastRead[t] = size()
		return lastRead[t]
	}
	c.janitor.cacheFns.removeEntry = func(k CacheKey) error {
		vAssert(reads[t] > readsAtLastRemoval[t] && lastRead[t] > target, "c13.evict.removal-not-decided-on-the-live-size")
		readsAtLastRemoval[t] = reads[t]
		return remove(k)
	}
	c.janitor.ensureCacheSize()
	vInterpose(nil, 0)
	if vInterposed() == 0 {
		return
	}
	vReach("interfered")
	after := c.byteSize.Get()
	evicted := 0
	for i := 0; i < n-1; i++ {
		if _, ok := c.entries[vKeysN(i)]; !ok {
			evicted++
			// victims are taken oldest first
			for j := 0; j < i; j++ {
				_, older := c.entries[vKeysN(j)]
				vAssert(!older, "c13.evict.kept-a-higher-priority-entry")
			}
		}
	}
	vAssert(after <= target, "c13.evict.stopped-above-target")
}

func vKeysN(i int) CacheKey {
	return CacheKey{Hex: "0000000" + string(rune('0'+i)) + "kkkk"}
}

// HarnessJanitorTick: the janitor's own loop (real goroutine, real ticker channel) does, on
// every tick, BOTH halves of a cycle: the expired entries are removed and the size limit is
// enforced (down to 80 %), and it keeps doing so on later ticks, after an interval change, and
// stops doing so once the cache is stopped.
func HarnessJanitorTick() {
	resetMetrics()
	vSetSysMem(1 << 40)
	limit := int64(1000)
	cfg := newCfg(limit)
	c := NewMemoryCache[vmeta](cfg, 100, limit, time.Hour, 2, context.Background())
	vRunPendingAt(0) // the loop starts and waits
	vAssert(vParkedCount() == 1, "c13.janitor-loop-not-waiting")
	vClockFreeze(true)
	now := time.Now()
	round := func(tag string) {
		// 2 expired entries and 6 live ones of 200 bytes: 1200 live bytes > limit
		for i := 0; i < 2; i++ {
			putMeta(c, vKeysN(i), 50, now.Add(-time.Second), now.Add(-time.Hour))
		}
		for i := 2; i < 8; i++ {
			if _, ok := c.entries[vKeysN(i)]; !ok {
				putMeta(c, vKeysN(i), 200, now.Add(time.Hour), now.Add(-time.Duration(10-i)*time.Minute))
			}
		}
		vTick()
		vResumeParked()
		vAssert(vParkedCount() == 1, "c13.janitor-loop-died")
		for i := 0; i < 2; i++ {
			_, still := c.entries[vKeysN(i)]
			vAssert(!still, "c13.tick."+tag+".expired-entry-kept")
		}
		vAssert(c.byteSize.Get() <= limit*8/10, "c13.tick."+tag+".size-limit-not-enforced")
		vAssert(c.byteSize.Get() > limit*8/10-200, "c13.evict.evicted-more-than-needed")
		_, newest := c.entries[vKeysN(7)]
		vAssert(newest, "c13.evict.kept-a-higher-priority-entry")
	}
	round("first")
	vReach("first-tick")
	if symChoice(2) == 1 {
		cfg.Cache.CleanupInterval.Stage(duration.Duration(5 * time.Minute))
		cfg.Cache.CleanupInterval.CommitStaged()
		vRunPending()
		vAssert(c.janitor.interval == 5*time.Minute && vTickerInterval() == 5*time.Minute, "c13.interval-change-not-followed")
		vReach("interval-changed")
	}
	round("later")
	vReach("later-tick")
	// stopped: a tick that is still delivered does nothing any more
	c.Destroy()
	vRunPending()
	vAssert(vParkedCount() == 0, "c14.janitor-loop-survives-stop")
	putMeta(c, vKeysN(0), 50, now.Add(-time.Second), now.Add(-time.Hour))
	vTick()
	vRunPending()
	_, still := c.entries[vKeysN(0)]
	vAssert(still, "c13.stopped-janitor-still-cleans")
	vReach("stopped")
}

// HarnessLimitChangeFile: the same for the file backend, in both directions: after the limit
// is LOWERED below what is stored the next cycle evicts down to 80 % of the new limit, and after
// it is RAISED above what is stored the next cycle evicts nothing (the old limit no longer
// counts).
func HarnessLimitChangeFile() {
	c := newFile(4, 100)
	cfg := kitCfg
	vClockFreeze(true)
	now := time.Now()
	for i := 0; i < 4; i++ {
		putFile(c, vKeysN(i), []byte("0123456789012345678901234"), now.Add(time.Hour), now.Add(-time.Duration(10-i)*time.Minute), int64(i))
	}
	// 100 bytes stored, limit 100: the cycle evicts down to 80
	if symChoice(2) == 0 {
		cfg.Cache.MaxCacheSize.Stage(bytesize.ByteSize(1000))
		cfg.Cache.MaxCacheSize.CommitStaged()
		vRunPending()
		vReach("limit-raised")
		c.janitor.ensureCacheSize()
		vAssert(len(c.entriesMetadata) == 4 && c.byteSize.Get() == 100, "c13.trigger.evicted-below-limit")
		return
	}
	c.janitor.ensureCacheSize()
	vAssert(c.byteSize.Get() == 75, "c13.evict.stopped-above-target")
	cfg.Cache.MaxCacheSize.Stage(bytesize.ByteSize(60))
	cfg.Cache.MaxCacheSize.CommitStaged()
	vRunPending()
	vReach("limit-lowered")
	vAssert(c.maxCacheSize.Get() == 60, "c13.limit-change-not-followed-by-store-path")
	c.janitor.ensureCacheSize()
	vAssert(c.byteSize.Get() <= 48, "c13.limit-change-not-followed-by-cleanup-cycle")
	_, newest := c.entriesMetadata[vKeysN(3)]
	vAssert(newest, "c13.evict.kept-a-higher-priority-entry")
}

// HarnessIntervalChangesBusyJanitor: the janitor is busy (not scheduled) while TWO interval
// changes arrive, the second of any value - also one that verify() refuses (<= 0) and that, by
// the known C18 finding, has been delivered all the same.  When the janitor loop gets to run
// it neither dies nor ends up anywhere but at the last workable value.
func HarnessIntervalChangesBusyJanitor() {
	resetMetrics()
	vSetSysMem(1 << 40)
	cfg := newCfg(1 << 30)
	c := NewMemoryCache[vmeta](cfg, 100, 1<<30, time.Hour, 2, context.Background())
	vRunPendingAt(0) // the janitor loop starts and waits
	vAssert(vParkedCount() == 1, "c13.janitor-loop-not-waiting")
	d2 := time.Duration(symInt64())
	cfg.Cache.CleanupInterval.Stage(duration.Duration(2 * time.Hour))
	cfg.Cache.CleanupInterval.Stage(duration.Duration(d2))
	// both listeners run before the loop does: the first hands over, the second has to wait
	vRunPendingAt(0)
	vRunPendingAt(0)
	died := vPanics(func() { vRunPending() })
	vAssert(!died, "c18.refused-interval-reaches-the-janitor-and-kills-it")
	if died {
		return
	}
	vAssert(vParkedCount() == 1, "c13.janitor-loop-died")
	if d2 > 0 {
		vReach("second-positive")
		vAssert(c.janitor.interval == d2 && vTickerInterval() == d2, "c13.interval-change-not-followed")
	} else {
		vReach("second-refused")
		vAssert(c.janitor.interval == 2*time.Hour && vTickerInterval() == 2*time.Hour, "c13.interval-change-not-followed")
	}
}
