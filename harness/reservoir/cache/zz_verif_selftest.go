package cache

import (
	"fmt"
	"path"
	"reservoir/utils"
	"strings"
)

// SelftestPathHost: the std functions the cache key relies on, natively and interpreted.
func SelftestPathHost() {
	s := symString(64)
	vTrace(path.Clean(s) + "|" + strings.ToLower(s) + "|" + fmt.Sprint(utils.Hex8ToIndex(s)) + "|" + strings.TrimSpace(s))
}
