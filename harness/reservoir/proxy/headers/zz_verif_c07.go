package headers

// C07 thin: the Range parser against an independent RFC 9110 reference recogniser.

func isDigitB(b byte) bool { return b >= '0' && b <= '9' }

// HarnessRangeNoPanic: parse ∘ SliceSize never panics, for every value "bytes=" ++ s and
// for every free string.
func HarnessRangeNoPanic() {
	n := vParam("len", 4)
	var v string
	if symChoice(2) == 0 {
		v = "bytes=" + symString(n)
	} else {
		v = symString(n + 2)
	}
	size := symInt64()
	vAssume(size >= 0)
	vNoPanic(func() {
		rh, err := parseRangeHeader(v)
		vReach("parsed")
		if err == nil {
			vReach("accepted")
			s, e, err2 := rh.SliceSize(size)
			if err2 == nil {
				vReach("sliced")
				vAssert(0 <= s && s <= e && e < size, "c07.slice-inside")
			}
		}
	}, "c07.range-parser-panic")
}
