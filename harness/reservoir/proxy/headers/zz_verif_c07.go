package headers

// C07 thin: the Range parser against an independent RFC 9110 reference recogniser.

// HarnessRangeNoPanic: parse ∘ SliceSize never panics and never yields a slice outside the
// representation, for every value "bytes=" ++ s and for every free string.
func HarnessRangeNoPanic() {
	n := vParam("len", 4)
	var v string
	if symChoice(2) == 0 {
		v = "bytes=" + symString(n)
	} else {
		v = symString(n + 2)
	}
	size := symInt64()
	vAssume(size >= 0)
	vNoPanic(func() {
		rh, err := parseRangeHeader(v)
		vReach("parsed")
		if err == nil {
			vReach("accepted")
			s, e, err2 := rh.SliceSize(size)
			if err2 == nil {
				vReach("sliced")
				vAssert(0 <= s && s <= e && e < size, "c07.slice-inside")
			}
		}
	}, "c07.range-parser-panic")
}

func refDigit(b byte) bool { return b >= '0' && b <= '9' }

// refNumber reads DIGIT+ at s[i:]; returns value and the index after the digits (i if none).
func refNumber(s string, i int) (int64, int) {
	var v int64
	for i < len(s) && refDigit(s[i]) {
		v = v*10 + int64(s[i]-'0')
		i++
	}
	return v, i
}

const (
	refBad      = 0
	refFirstLast = 1
	refFirstOpen = 2
	refSuffix   = 3
	refMultiple = 4
)

// refRangeSpec is the strict RFC 9110 recogniser for the text after "bytes=":
// int-range = first-pos "-" [last-pos] ; suffix-range = "-" suffix-length ; a following
// "," announces a range set (multiple ranges).  No optional whitespace.
func refRangeSpec(s string) (kind int, a, b int64) {
	if len(s) == 0 {
		return refBad, 0, 0
	}
	if s[0] == '-' {
		n, j := refNumber(s, 1)
		if j == 1 {
			return refBad, 0, 0
		}
		if j == len(s) {
			return refSuffix, n, 0
		}
		if s[j] == ',' {
			return refMultiple, 0, 0
		}
		return refBad, 0, 0
	}
	first, j := refNumber(s, 0)
	if j == 0 || j >= len(s) || s[j] != '-' {
		return refBad, 0, 0
	}
	j++
	if j == len(s) {
		return refFirstOpen, first, 0
	}
	if s[j] == ',' {
		return refMultiple, 0, 0
	}
	last, k := refNumber(s, j)
	if k == j {
		return refBad, 0, 0
	}
	if k == len(s) {
		return refFirstLast, first, last
	}
	if s[k] == ',' {
		return refMultiple, 0, 0
	}
	return refBad, 0, 0
}

// HarnessRangeReference: differential check of parse ∘ SliceSize against refRangeSpec.
func HarnessRangeReference() {
	n := vParam("len", 4)
	s := symString(n)
	size := symInt64()
	vAssume(size >= 0)
	kind, a, b := refRangeSpec(s)
	var rh rangeHeader
	var perr error
	if vPanics(func() { rh, perr = parseRangeHeader("bytes=" + s) }) {
		vReach("panic-outcome") // reported by HarnessRangeNoPanic
		return
	}
	accepted := false
	var gs, ge int64
	if perr == nil {
		var serr error
		gs, ge, serr = rh.SliceSize(size)
		accepted = serr == nil
	}
	switch kind {
	case refFirstLast:
		vReach("ref-first-last")
		vAssert(perr == nil, "c07.wellformed-rejected-by-parser")
		if a <= b && b < size {
			vAssert(accepted && gs == a && ge == b, "c07.wellformed-satisfiable-not-served-exactly")
		} else if accepted {
			// out of bounds: a refusal is fine; if served it must be the RFC clamp
			hi := b
			if hi > size-1 {
				hi = size - 1
			}
			vAssert(a <= hi && gs == a && ge == hi, "c07.out-of-bounds-served-different-slice")
		}
	case refFirstOpen:
		vReach("ref-first-open")
		vAssert(perr == nil, "c07.wellformed-rejected-by-parser")
		if a < size {
			vAssert(accepted && gs == a && ge == size-1, "c07.wellformed-satisfiable-not-served-exactly")
		} else {
			vAssert(!accepted, "c07.out-of-bounds-served-different-slice")
		}
	case refSuffix:
		vReach("ref-suffix")
		vAssert(perr == nil, "c07.wellformed-rejected-by-parser")
		if a > 0 && a <= size {
			vAssert(accepted && gs == size-a && ge == size-1, "c07.wellformed-satisfiable-not-served-exactly")
		} else if accepted {
			// suffix longer than the representation may be served as the whole of it
			vAssert(a > size && size > 0 && gs == 0 && ge == size-1, "c07.out-of-bounds-served-different-slice")
		}
	case refMultiple:
		vReach("ref-multiple")
		vAssert(perr != nil, "c07.multiple-ranges-accepted")
	default:
		vReach("ref-bad")
		if accepted {
			vNote("C07 lenient acceptance: a range-spec outside the RFC 9110 grammar (blanks / trailing characters) is served")
			vAssert(0 <= gs && gs <= ge && ge < size, "c07.slice-inside")
		}
	}
}

// HarnessRangeOverflow: numbers that do not fit int64 must be refused, not wrapped.
func HarnessRangeOverflow() {
	L := symRange(vParam("mindigits", 19), vParam("maxdigits", 20))
	d := symStringN(L)
	for i := 0; i < len(d); i++ {
		vAssume(d[i] >= '0')
		vAssume(d[i] <= '9')
	}
	vAssume(d[0] != '0')
	overflow := L >= 20 || (L == 19 && d > "9223372036854775807")
	form := symChoice(vParam("forms", 3))
	var v string
	switch form {
	case 0:
		v = "bytes=" + d + "-"
	case 1:
		v = "bytes=-" + d
	default:
		v = "bytes=0-" + d
	}
	size := symInt64()
	vAssume(size > 0)
	accepted := false
	rh, err := parseRangeHeader(v)
	if err == nil {
		_, _, serr := rh.SliceSize(size)
		accepted = serr == nil
	}
	if overflow {
		vReach("overflowing")
		vAssert(!accepted, "c07.overflowing-number-served")
	} else {
		vReach("fits")
	}
}
