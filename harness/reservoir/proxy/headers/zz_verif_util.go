package headers

import (
	"reservoir/utils/typeutils"
	"time"
)

func someCC(c cacheControl) typeutils.Optional[cacheControl] { return typeutils.Some(c) }
func someTime(t time.Time) typeutils.Optional[time.Time]    { return typeutils.Some(t) }
