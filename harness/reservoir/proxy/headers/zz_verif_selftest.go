package headers

import "fmt"

// Selftest entries: the same code runs natively and in the interpreter (concrete mode).

func SelftestRange() {
	s := symString(64)
	defer func() {
		if r := recover(); r != nil {
			vTrace("panic")
		}
	}()
	rh, err := parseRangeHeader(s)
	if err != nil {
		vTrace("parse-error:" + err.Error())
		return
	}
	for _, size := range []int64{0, 1, 1000} {
		a, b, e := rh.SliceSize(size)
		if e != nil {
			vTrace(fmt.Sprintf("%d:err:%s", size, e.Error()))
		} else {
			vTrace(fmt.Sprintf("%d:%d-%d", size, a, b))
		}
	}
}

func SelftestCacheControl() {
	s := symString(64)
	cc, err := parseCacheControl(s)
	if err != nil {
		vTrace("error")
		return
	}
	vTrace(fmt.Sprintf("%v:%d", cc.noCache, int64(cc.maxAge)))
}
