package headers

import (
	"net/http"
	"time"
)

// ---- reference tokenizer for Cache-Control (RFC 9111 §5.2: comma separated, OWS trimmed,
// directive names case-insensitive) ----

func refLowerB(b byte) byte {
	if b >= 'A' && b <= 'Z' {
		return b + 32
	}
	return b
}

func refEqFold(s string, lit string) bool {
	if len(s) != len(lit) {
		return false
	}
	for i := 0; i < len(s); i++ {
		if refLowerB(s[i]) != lit[i] {
			return false
		}
	}
	return true
}

func refTrimOWS(s string) string {
	for len(s) > 0 && (s[0] == ' ' || s[0] == '\t') {
		s = s[1:]
	}
	for len(s) > 0 && (s[len(s)-1] == ' ' || s[len(s)-1] == '\t') {
		s = s[:len(s)-1]
	}
	return s
}

// refCacheControl scans one header value.  forbids: a directive that forbids reuse from the
// store (no-store, no-cache, private, max-age=0).  age: value of a well-formed max-age=N
// (N>0, decimal digits only, at most 9 digits so that nothing overflows), ok reports presence.
func refCacheControl(s string) (forbids bool, age int64, ok bool) {
	start := 0
	for i := 0; i <= len(s); i++ {
		if i < len(s) && s[i] != ',' {
			continue
		}
		tok := refTrimOWS(s[start:i])
		start = i + 1
		if refEqFold(tok, "no-store") || refEqFold(tok, "no-cache") || refEqFold(tok, "private") {
			forbids = true
		}
		if len(tok) > 8 && refEqFold(tok[:8], "max-age=") {
			num := tok[8:]
			var v int64
			good := len(num) <= 9
			for j := 0; j < len(num); j++ {
				if num[j] < '0' || num[j] > '9' {
					good = false
				}
				v = v*10 + int64(num[j]-'0')
			}
			if good {
				if v == 0 {
					forbids = true
				} else {
					age, ok = v, true
				}
			}
		}
	}
	return
}

// HarnessCCFree: every Cache-Control value of length <= len over the full byte alphabet:
// no panic; a value that (per the reference) forbids reuse is never storable.
func HarnessCCFree() {
	n := vParam("len", 5)
	s := symString(n)
	if len(s) > vParam("nonascii_len", 2) {
		// longer values are explored over the ASCII alphabet only (the Unicode arms of
		// TrimSpace/ToLower multiply paths without reaching new parser behaviour)
		for i := 0; i < len(s); i++ {
			vAssume(s[i] < 0x80)
		}
	}
	forbids, _, _ := refCacheControl(s)
	var hd *HeaderDirectives
	vNoPanic(func() { hd = ParseHeaderDirective(http.Header{"Cache-Control": {s}}) }, "c16.parse-header-directive-panic")
	if hd == nil {
		return
	}
	storable := hd.ShouldCache(false)
	if forbids {
		vReach("forbids")
		vAssert(!storable, "c04.forbidding-directive-stored")
	} else {
		vReach("allows")
	}
}

func refCaseVariant(lit string, k int) string {
	b := []byte(lit)
	for i := range b {
		if (k == len(lit) || k == i) && b[i] >= 'a' && b[i] <= 'z' {
			b[i] -= 32
		}
	}
	return string(b)
}

// HarnessCCStructured: pre ++ directive ++ post where the directive is one of the
// forbidding ones in arbitrary letter case, or max-age=digits.
func HarnessCCStructured() {
	pre := ""
	switch symChoice(3) {
	case 1:
		pre = "public,"
	case 2:
		pre = symStringN(1) + ", "
	}
	post := ""
	switch symChoice(4) {
	case 1:
		post = ", must-revalidate"
	case 2:
		post = " ," + symStringN(1)
	case 3:
		post = ", max-age=60"
	}
	var dir string
	kind := symChoice(4)
	lits := []string{"no-store", "no-cache", "private", "max-age="}
	lit := lits[kind]
	// letter-case variants of the directive name: all lower, all upper, or exactly one
	// letter in upper case (position chosen nondeterministically)
	switch symChoice(3) {
	case 0:
		dir = lit
	case 1:
		dir = refCaseVariant(lit, len(lit)) // all upper case
	default:
		dir = refCaseVariant(lit, symChoice(len(lit))) // one letter in upper case
	}
	var digits string
	if kind == 3 {
		digits = symString(vParam("digits", 3))
		for i := 0; i < len(digits); i++ {
			vAssume(digits[i] >= '0')
			vAssume(digits[i] <= '9')
		}
		vAssume(len(digits) > 0)
		dir += digits
	}
	s := pre + dir + post
	forbids, age, hasAge := refCacheControl(s)
	hd := ParseHeaderDirective(http.Header{"Cache-Control": {s}})
	storable := hd.ShouldCache(false)
	if forbids {
		vReach("forbids")
		vAssert(!storable, "c04.forbidding-directive-stored")
		return
	}
	if hasAge {
		vReach("max-age")
		// C04: a positive max-age is storable; C03: lifetime is at most max-age
		vAssert(storable, "c04.positive-max-age-not-stored")
		vClockFreeze(true)
		now := time.Now()
		exp := hd.GetExpiresOrDefault(false, time.Hour)
		vAssert(!exp.After(now.Add(time.Duration(age)*time.Second)), "c03.lifetime-exceeds-max-age")
		vAssert(exp.Equal(now.Add(time.Duration(age)*time.Second)), "c03.lifetime-not-max-age")
	}
}

// HarnessCCBigAge: max-age with up to 19 digits: the stored lifetime never exceeds the
// announced one (a wrapped product would), and never is negative-into-the-past while stored.
func HarnessCCBigAge() {
	L := symRange(vParam("mindigits", 10), vParam("maxdigits", 10))
	// the trailing `symdigits` digits are symbolic; the leading ones are those of MaxInt64,
	// so that the seconds->nanoseconds wrap boundary (9223372036.85 s) lies inside the range
	k := vParam("symdigits", 3)
	if k > L {
		k = L
	}
	d := "9223372036854775807"[:L-k] + symStringN(k)
	for i := L - k; i < len(d); i++ {
		vAssume(d[i] >= '0')
		vAssume(d[i] <= '9')
	}
	vAssume(d[0] != '0')
	fits := L < 19 || d <= "9223372036854775807"
	hd := ParseHeaderDirective(http.Header{"Cache-Control": {"max-age=" + d}})
	storable := hd.ShouldCache(false)
	if !storable {
		vReach("not-stored")
		return
	}
	vReach("stored")
	vClockFreeze(true)
	now := time.Now()
	exp := hd.GetExpiresOrDefault(false, time.Hour)
	// lifetime = exp - now must be positive and at most value(d) seconds; value(d) >= 10^9 s here,
	// so "at most" can only be broken by wrap-around, which shows as exp < now or a huge jump.
	vAssert(!exp.Before(now), "c03.max-age-wrapped-negative")
	if fits {
		vReach("fits")
	}
}

// HarnessExpiresPolicy: GetExpiresOrDefault precedence over symbolic directives and clock.
func HarnessExpiresPolicy() {
	force := symBool()
	dflt := time.Duration(symInt64())
	vAssume(dflt > 0 && dflt < time.Duration(1)<<50)
	hasCC, hasExp := symBool(), symBool()
	maxAge := time.Duration(symInt64())
	vAssume(maxAge >= 0 && maxAge < time.Duration(1)<<50)
	noCache := symBool()
	expT := symTime()
	hd := ParseHeaderDirective(http.Header{})
	if hasCC {
		hd.CacheControl = NewHeader("Cache-Control", someCC(cacheControl{noCache: noCache, maxAge: maxAge}))
	}
	if hasExp {
		hd.Expires = NewHeader("Expires", someTime(expT))
	}
	vClockFreeze(true)
	now := time.Now()
	got := hd.GetExpiresOrDefault(force, dflt)
	var want time.Time
	switch {
	case force:
		want = now.Add(dflt)
	case hasCC && maxAge > 0:
		want = now.Add(maxAge)
	case hasExp:
		want = expT
	default:
		want = now.Add(dflt)
	}
	vReach("decided")
	vAssert(got.Equal(want), "c03.lifetime-precedence")
}

// HarnessShouldCacheTable: ShouldCache against the statement's predicate over symbolic
// parsed directives (C04 thin).
func HarnessShouldCacheTable() {
	ignore := symBool()
	hasCC, hasExp := symBool(), symBool()
	maxAge := time.Duration(symInt64())
	noCache := symBool()
	expT := symTime()
	hd := ParseHeaderDirective(http.Header{})
	if hasCC {
		hd.CacheControl = NewHeader("Cache-Control", someCC(cacheControl{noCache: noCache, maxAge: maxAge}))
	}
	if hasExp {
		hd.Expires = NewHeader("Expires", someTime(expT))
	}
	vClockFreeze(true)
	now := time.Now()
	got := hd.ShouldCache(ignore)
	// the statement: with directives ignored every 200 GET response is storable; otherwise
	// a positive max-age, or no Cache-Control and no past Expires, is storable; forbidding
	// directives / past Expires are not.
	if ignore {
		vReach("ignore")
		vAssert(got, "c04.ignore-policy-not-stored")
		return
	}
	if hasCC && noCache {
		vAssert(!got, "c04.forbidding-directive-stored")
		return
	}
	if hasExp && expT.Before(now) {
		vReach("past-expires")
		vAssert(!got, "c04.past-expires-stored")
		return
	}
	if hasCC && maxAge >= time.Second && !hasExp {
		vReach("positive-max-age")
		vAssert(got, "c04.positive-max-age-not-stored")
	}
	if !hasCC && !hasExp {
		vReach("no-directives")
		vAssert(got, "c04.plain-200-not-stored")
	}
}

// HarnessCCMultiLine: several Cache-Control header lines count as one list (RFC 9110 §5.3).
func HarnessCCMultiLine() {
	// an empty line (a header field with an empty value) is a list with no members
	lines := []string{"max-age=60", "public", "no-store", "private", "no-cache", "max-age=0", "MAX-AGE=30", "", " "}
	a := lines[symChoice(len(lines))]
	b := lines[symChoice(len(lines))]
	fa, _, _ := refCacheControl(a)
	fb, _, _ := refCacheControl(b)
	hd := ParseHeaderDirective(http.Header{"Cache-Control": {a, b}})
	storable := hd.ShouldCache(false)
	if fa || fb {
		vReach("forbids")
		vAssert(!storable, "c04.forbidding-directive-stored")
	} else {
		vReach("allows")
	}
}

// HarnessExpiresForms: lifetime chosen from max-age / Expires / default for every Expires
// form, including one that does not parse ("counts as already expired").
func HarnessExpiresForms() {
	vClockFreeze(true)
	now := time.Now()
	h := http.Header{}
	form := symChoice(4)
	var expT time.Time
	switch form {
	case 1:
		h["Expires"] = []string{[]string{"0", "garbage", "Thu, 32 Foo 2026 25:61:00 GMT", "-1", "", " ",
			"Thursday, 01-Oct-26 20:05:13 JST", "Thu, 01 Oct 2026 20:05:13 PST"}[symChoice(8)]} // HTTP dates are GMT: another zone name is not a valid date
	case 2, 3:
		expT = symTime()
		h["Expires"] = []string{vTimeString(expT)}
	}
	hasAge := symChoice(2) == 1
	if hasAge {
		h["Cache-Control"] = []string{"max-age=30"}
	}
	force := symBool()
	ignore := symBool()
	dflt := 100 * time.Second
	hd := ParseHeaderDirective(h)
	stored := hd.ShouldCache(ignore)
	vReach("decided")
	if !stored {
		vReach("not-stored")
		return
	}
	exp := hd.GetExpiresOrDefault(force, dflt)
	life := exp.Sub(now)
	switch {
	case force:
		vAssert(life == dflt, "c03.forced-default-not-applied")
	case hasAge:
		vAssert(life == 30*time.Second, "c03.lifetime-not-max-age")
	case form == 1:
		vReach("unparseable-expires")
		vAssert(life <= 0, "c03.unparseable-expires-treated-as-fresh")
	case form >= 2:
		vAssert(exp.Equal(expT), "c03.lifetime-not-expires-date")
	default:
		vAssert(life == dflt, "c03.default-lifetime-not-applied")
	}
}

// HarnessCCBadArgument: a max-age whose argument is not a plain number (quotes, signs,
// blanks, letters), alone or next to other directives: never a panic; a directive that
// forbids reuse elsewhere in the header is still honoured; the lifetime never exceeds a
// well-formed max-age given elsewhere in the header.
func HarnessCCBadArgument() {
	args := []string{"\"", "\"5\"", "x", "5x", "", " ", "-", symStringN(1), symStringN(2)}
	arg := args[symChoice(len(args))]
	for i := 0; i < len(arg); i++ {
		c := arg[i]
		vAssume(c < 0x80 && c != ',')
	}
	pre := []string{"", "no-store, ", "max-age=60, "}[symChoice(3)]
	post := []string{"", ", private", ", max-age=60"}[symChoice(3)]
	s := pre + "max-age=" + arg + post
	forbids, age, hasAge := refCacheControl(s)
	var hd *HeaderDirectives
	vNoPanic(func() { hd = ParseHeaderDirective(http.Header{"Cache-Control": {s}}) }, "c16.parse-header-directive-panic")
	if hd == nil {
		return
	}
	vReach("parsed")
	storable := hd.ShouldCache(false)
	if forbids {
		vReach("forbids")
		vAssert(!storable, "c04.forbidding-directive-stored")
		return
	}
	if storable && hasAge {
		vReach("max-age-elsewhere")
		vClockFreeze(true)
		now := time.Now()
		exp := hd.GetExpiresOrDefault(false, time.Hour)
		vAssert(!exp.After(now.Add(time.Duration(age)*time.Second)), "c03.lifetime-exceeds-max-age")
	}
}
