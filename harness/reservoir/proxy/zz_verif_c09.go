package proxy

import (
	"net/http"
	"reservoir/cache"
	"time"
)

// C09: if the origin answers successfully the client receives that answer, whatever goes
// wrong on the cache side.

func HarnessCacheTrouble() {
	scenario := symChoice(5)
	names := []string{"empty-body", "cache-full", "fs-fault", "entry-vanishes-before-304", "entry-replaced-before-304"}
	name := names[scenario]
	backend := backendMem
	limit := int64(1 << 30)
	body := []byte("OK")
	switch scenario {
	case 0:
		backend = symChoice(2)
		body = nil
	case 1:
		backend = symChoice(2)
		limit = 1 // full as soon as one byte is stored
		envShards = symRange(1, 2) // one shard: the only eviction candidate shares the storing request's lock
	case 2:
		backend = backendFile
	case 3, 4:
		backend = symChoice(2)
	}
	e := newEnv(backend, limit)
	envShards = 2
	h := hdr("Cache-Control", "max-age=5", "Etag", "\"a\"")
	vReach(name)
	switch scenario {
	case 0, 2:
		e.o.script = []originResp{{status: 200, header: h, body: body}}
		if scenario == 2 {
			vFSFaults(vParam("faults", 1))
		}
		vClockFreeze(true)
		c := e.plain(newReq("GET", "o.test", "/t", "", nil))
		vAssert(c.answered && c.status == 200 && string(c.body) == string(body), "c09."+name+".good-answer-became-error")
	case 1:
		// an entry of another key fills the cache; it shares the (only relevant) lock or not
		e.o.script = []originResp{{status: 200, header: h, body: []byte("FILLER")}, {status: 200, header: h, body: body}}
		vClockFreeze(true)
		c0 := e.plain(newReq("GET", "o.test", "/filler", "", nil))
		vAssert(c0.status == 200, "c09."+name+".good-answer-became-error")
		c := e.plain(newReq("GET", "o.test", "/t", "", nil))
		vAssert(c.answered && c.status == 200 && string(c.body) == string(body), "c09."+name+".good-answer-became-error")
	case 3, 4:
		// (a request without conditional headers - the bypass - is answered with the full 200)
		e.o.script = []originResp{{status: 200, header: h, body: body}, {status: 304, header: hdr("Etag", "\"a\"")}, {status: 200, header: h, body: body}}
		req1 := newReq("GET", "o.test", "/t", "", nil)
		key := cache.MakeFromRequest(req1)
		e.plain(req1)
		m, _, err := e.p.cache.GetMetadata(key)
		if err != nil {
			return
		}
		t1 := time.Now()
		vAssume(t1.After(m.Expires))
		// while the revalidation is at the origin, the entry is evicted / replaced
		e.o.onFetch = func(n int) {
			if n != 1 {
				return
			}
			if scenario == 3 {
				e.p.cache.Delete(key)
			} else {
				e.p.cache.Cache(key, &bodyReader{data: []byte("NEW"), failAt: -1}, t1.Add(time.Hour), cachedRequestInfo{ETag: "\"n\"", Header: hdr()})
			}
		}
		vClockFreeze(true)
		c := e.plain(newReq("GET", "o.test", "/t", "", nil))
		vAssert(c.answered && c.status == 200, "c09."+name+".good-answer-became-error")
		vAssert(string(c.body) == "OK" || string(c.body) == "NEW", "c09."+name+".body-of-no-version")
		// C01: the validators delivered (and kept) with a body are the ones the origin sent with
		// THAT body - a 304 that arrives late does not stamp the old validators on the new entry
		if string(c.body) == "NEW" {
			vAssert(one(c.header, "Etag") != "\"a\"", "c01.validators-of-another-version-delivered")
		}
		if string(c.body) == "OK" {
			vAssert(one(c.header, "Etag") != "\"n\"", "c01.validators-of-another-version-delivered")
		}
		if m2, _, err2 := e.p.cache.GetMetadata(key); err2 == nil && scenario == 4 {
			if m2.Size == 3 { // the replacement ("NEW") is what is stored
				vAssert(m2.Object.ETag == "\"n\"", "c01.stored-validators-of-another-version")
			}
		}
	}
}

// HarnessCacheTroubleAnywhere: while a request for a fresh, stale (origin: 304) or unknown
// resource is being handled, another request's cache operation (delete / replacement /
// eviction) runs at ANY lock or file-system boundary of the handling.  The origin answers
// every request successfully, so the client must get a 200 with a complete body.
func HarnessCacheTroubleAnywhere() {
	backend := symChoice(2)
	e := newEnv(backend, 1<<30)
	h := hdr("Cache-Control", "max-age=5", "Etag", "\"a\"")
	pre := symChoice(3) // 0 unknown resource, 1 fresh entry, 2 stale entry (revalidated with 304)
	e.o.script = []originResp{{status: 200, header: h, body: []byte("OK")}, {status: 304, header: hdr()}, {status: 200, header: h, body: []byte("OK")}}
	req1 := newReq("GET", "o.test", "/w", "", nil)
	key := cache.MakeFromRequest(req1)
	now := time.Now()
	if pre > 0 {
		e.plain(req1)
		m, _, err := e.p.cache.GetMetadata(key)
		if err != nil {
			return
		}
		now = time.Now()
		if pre == 2 {
			vAssume(now.After(m.Expires))
		} else {
			vAssume(now.Before(m.Expires))
			e.o.script = []originResp{{status: 200, header: h, body: []byte("OK")}, {status: 200, header: h, body: []byte("OK")}}
		}
	}
	vReach([]string{"unknown-resource", "fresh-entry", "stale-entry"}[pre])
	kind := symChoice(2)
	vClockFreeze(true)
	second := func() {
		if kind == 0 {
			e.p.cache.Delete(key)
		} else {
			e.p.cache.Cache(key, &bodyReader{data: []byte("NEW"), failAt: -1}, now.Add(time.Hour), cachedRequestInfo{ETag: "\"n\"", Header: hdr()})
		}
	}
	// conc=0: the other request's operation runs atomically at one scheduling point of the
	// request; conc=n: both run concurrently with at most n context switches
	conc := vParam("conc", 0)
	if conc > 0 {
		vConcurrent(second, conc)
	} else {
		vInterpose(second, 1)
	}
	c := e.plain(newReq("GET", "o.test", "/w", "", nil))
	if conc > 0 {
		vJoin()
	} else {
		vInterpose(nil, 0)
	}
	if vInterposed() > 0 {
		vReach("other-request-interfered")
	}
	vAssert(c.answered && c.status == 200, "c09.interference.good-answer-became-error")
	vAssert(string(c.body) == "OK" || string(c.body) == "NEW", "c09.interference.body-of-no-version")
}

// HarnessRangeRetryStoreTrouble: the origin refuses the client's Range (416), answers the
// proxy's retry without Range with a good 200, and the cache has trouble storing that answer
// (an injected file-system fault at any call, or a full cache): the client still gets what the
// origin's good answer gives it - never the 416 the proxy itself had already worked around.
func HarnessRangeRetryStoreTrouble() {
	backend := symChoice(2)
	limit := int64(1 << 30)
	e := newEnv(backend, limit)
	h := hdr("Cache-Control", "max-age=60", "Etag", "\"a\"")
	// the origin refuses every ranged request and answers every range-less one
	e.o.script = []originResp{{status: 200, header: h, body: []byte("0123456789")}}
	e.o.answer = func(req *http.Request) originResp {
		if len(req.Header["Range"]) > 0 {
			return originResp{status: 416, header: hdr(), body: []byte("range-error")}
		}
		return originResp{status: 200, header: h, body: []byte("0123456789")}
	}
	vClockFreeze(true)
	if backend == backendFile {
		vFSFaults(1)
	}
	c := e.plain(newReq("GET", "o.test", "/q", "", hdr("Range", "bytes=2-5")))
	vReach("answered")
	vAssert(c.answered, "c16.request-unanswered")
	if vFSFaulted() {
		vReach("store-trouble")
	}
	vAssert(c.status != 416 && c.status < 500, "c09.range-retry.good-answer-became-error")
	if c.status == 206 {
		vAssert(string(c.body) == "2345", "c07.206-body-is-not-the-announced-slice")
	}
	if c.status == 200 {
		vAssert(string(c.body) == "0123456789", "c09.range-retry.body-of-no-version")
	}
}
