package proxy

import (
	"context"
	"net/http"
	"reflect"
	"time"

	"reservoir/cache"
	"reservoir/config"
	"reservoir/proxy/responder"
)

// C16 on the request path: "no header set an origin can return makes request handling panic
// ... or leave the client without a well-formed HTTP response".  A resource is primed (or
// not), time passes (entry fresh or stale), then a request with a menu of Range / If-Range /
// If-None-Match shapes meets a menu of origin answers (any of the statuses the fetcher has a
// branch for, then an answer to the proxy's own retry).  Whatever the combination: no panic
// (an uncaught panic is reported by the engine), a status line with a status in 100..599,
// and for a bodyless status no body.
func HarnessRequestShapes() {
	full := vParam("full", 0) == 1
	backend := backendMem
	if full {
		backend = symChoice(2)
	}
	e := newEnv(backend, 1<<30)
	if symChoice(2) == 1 {
		e.cfg.Proxy.RetryOnInvalidRange.Stage(true)
		e.cfg.Proxy.RetryOnInvalidRange.CommitStaged()
		vDropPending()
	}
	vClockFreeze(true)
	t0 := time.Now()
	lm := vTimeString(t0.Add(-time.Hour))
	primes := 2
	if full {
		primes = 3
	}
	prime := symChoice(primes)
	var first []originResp
	switch prime {
	case 1:
		first = []originResp{{status: 200, header: hdr("Cache-Control", "max-age=60", "Etag", "\"e1\"", "Last-Modified", lm), body: []byte("abc")}}
	case 2:
		first = []originResp{{status: 200, header: hdr("Cache-Control", "max-age=60"), body: []byte("abc")}} // no validators
	}
	if prime != 0 {
		e.o.script = first
		c0 := e.plain(newReq("GET", "o.test", "/r", "", nil))
		vAssert(c0.answered && c0.status == 200, "c16.priming-request-failed")
		vClockFreeze(false)
		t1 := time.Now()
		if symChoice(2) == 1 {
			vAssume(t1.Sub(t0) > 2*time.Minute && t1.Sub(t0) < time.Hour) // the entry is stale now
			vReach("stale")
		} else {
			vAssume(t1.Sub(t0) < 30*time.Second)
			vReach("fresh")
		}
		vClockFreeze(true)
	} else {
		vReach("cold")
	}
	// the request under test
	rh := http.Header{}
	switch symChoice(4) {
	case 1:
		rh["Range"] = []string{"bytes=0-1"}
	case 2:
		rh["Range"] = []string{"bytes=7-"} // beyond the 3-byte representation
	case 3:
		rh["Range"] = []string{"bytes=1-0"} // malformed: parser refuses it
	}
	switch symChoice(3) {
	case 1:
		rh["If-Range"] = []string{"\"e1\""}
	case 2:
		rh["If-Range"] = []string{lm}
	}
	if full && symChoice(2) == 1 {
		rh["If-None-Match"] = []string{"\"e1\""}
	}
	method := "GET"
	if full && symChoice(2) == 1 {
		method = "HEAD"
	}
	// what the origin says now, and what it says to a retry / follow-up of the proxy
	statuses := []int{200, 206, 304, 404, 416, 503}
	st := statuses[symChoice(len(statuses))]
	h1 := hdr("Etag", "\"e1\"")
	switch symChoice(3) {
	case 1:
		h1["Cache-Control"] = []string{"max-age=60"}
	case 2:
		h1["Cache-Control"] = []string{"no-store"}
	}
	b1 := []byte("abc")
	if st == 304 || st == 206 {
		b1 = []byte("a")
	}
	if st == 304 {
		b1 = nil
	}
	follow := []originResp{
		{status: 200, header: hdr("Cache-Control", "max-age=60", "Etag", "\"e2\""), body: []byte("xyz")},
		{status: 200, header: hdr("Cache-Control", "no-store"), body: []byte("xyz")},
		{status: 416, header: hdr(), body: []byte("no")},
		{status: 503, header: hdr(), body: []byte("down")},
	}
	f := follow[symChoice(len(follow))]
	before := len(e.o.seen)
	e.o.script = append(append([]originResp(nil), make([]originResp, before)...), originResp{status: st, header: h1, body: b1}, f)
	var c capture
	if full && symChoice(2) == 1 {
		c = e.tunnelOne(newReq(method, "o.test", "/r", "", rh)) // the same exchange inside a CONNECT tunnel
		vReach("via-tunnel")
	} else {
		c = e.plain(newReq(method, "o.test", "/r", "", rh))
	}
	vReach("answered")
	vAssert(c.answered, "c16.request-unanswered")
	vAssert(c.status >= 100 && c.status <= 599, "c16.malformed-status")
	if c.status == 304 || c.status == 204 || c.status < 200 {
		vAssert(len(c.body) == 0, "c16.body-on-a-bodyless-status")
	}
	// and the proxy is still usable for the next client
	c2 := e.plain(newReq("GET", "o.test", "/r", "", nil))
	vAssert(c2.answered && c2.status >= 100 && c2.status <= 599, "c16.request-unanswered")
}

// C18 "accepted only if the proxy can run under it" with the REAL consumer: a configuration
// with a free cache.type (any ASCII bytes up to 6; any bytes at all with ascii=0), an empty or usable cache directory and boundary
// numeric values that verify() accepts is handed to the real NewProxy, and a request is sent
// through the result.  Accepted means: NewProxy returns a proxy, nothing panics, the client
// is answered.
func HarnessAcceptedConfigStarts() {
	cfg := config.NewDefault()
	var typ string
	switch symChoice(3) {
	case 0:
		typ = symString(4)
	case 1:
		typ = symString(6)
	default:
		typ = symStringN(vParam("typelen", 3))
	}
	if vParam("ascii", 1) == 1 {
		for i := 0; i < len(typ); i++ {
			vAssume(typ[i] < 0x80) // bytes >= 0x80 only with ascii=0 (short strings)
		}
	}
	cfg.Cache.Type.Stage(config.CacheType(typ))
	cfg.Cache.Type.CommitStaged()
	if symChoice(2) == 1 {
		cfg.Cache.File.Dir.Stage("")
		cfg.Cache.File.Dir.CommitStaged()
	} else {
		cfg.Cache.File.Dir.Stage("var/pcache")
		cfg.Cache.File.Dir.CommitStaged()
	}
	shards := []int{0, 1, 2}[symChoice(3)]
	cfg.Cache.LockShards.Stage(shards)
	cfg.Cache.LockShards.CommitStaged()
	budget := []int{-1, 0, 100, 101}[symChoice(4)]
	cfg.Cache.Memory.MemoryBudgetPercent.Stage(budget)
	cfg.Cache.Memory.MemoryBudgetPercent.CommitStaged()
	cfg.Proxy.UpstreamDefaultHttps.Stage(false)
	cfg.Proxy.UpstreamDefaultHttps.CommitStaged()
	vDropPending()
	vOverride("reservoir/config.checkIsSetRecursive", func(reflect.Value) error { return nil }) // reflection walk: every property of NewDefault() is set
	if config.VVerify(cfg) != nil {
		vReach("refused")
		return
	}
	vReach("accepted")
	vSetSysMem(1 << 40)
	var p *Proxy
	var err error
	vNoPanic(func() { p, err = NewProxy(cfg, stubCA{}, context.Background()) }, "c18.accepted-config-panics-at-start")
	vAssert(err == nil && p != nil, "c18.accepted-config-cannot-start")
	if err != nil || p == nil {
		return
	}
	vDropPending()
	o := &origin{script: []originResp{{status: 200, header: hdr("Cache-Control", "max-age=60"), body: []byte("abc")}}}
	vSetOrigin(o.do)
	w := &recWriter{h: http.Header{}}
	vNoPanic(func() { p.handleHTTP(responder.NewHTTPResponder(w), newReq("GET", "o.test", "/r", "", nil)) }, "c18.accepted-config-panics-on-request")
	vAssert(w.written && w.status == 200 && string(w.body) == "abc", "c18.accepted-config-does-not-serve")
}

// C19 on the request path: "every live component ends up following the most recent value
// (... cache-policy and retry switches)".  The request path reads these switches from the
// configuration; this harness changes one of them between two phases (any value before, any
// value after, also back-to-back with an intermediate value) and checks that the behaviour of
// each phase is the one the value current in that phase prescribes.
func HarnessLiveSwitches() {
	backend := symChoice(2)
	e := newEnv(backend, 1<<30)
	which := symChoice(4)
	set := func(v bool) {
		switch which {
		case 0:
			e.cfg.Proxy.CachePolicy.IgnoreCacheControl.Stage(v)
			e.cfg.Proxy.CachePolicy.IgnoreCacheControl.CommitStaged()
		case 1:
			e.cfg.Proxy.RetryOnInvalidRange.Stage(v)
			e.cfg.Proxy.RetryOnInvalidRange.CommitStaged()
		case 2:
			e.cfg.Proxy.RetryOnRange416.Stage(v)
			e.cfg.Proxy.RetryOnRange416.CommitStaged()
		default:
			e.cfg.Proxy.CachePolicy.ForceDefaultMaxAge.Stage(v)
			e.cfg.Proxy.CachePolicy.ForceDefaultMaxAge.CommitStaged()
		}
		vRunPending()
	}
	vClockFreeze(true)
	phase := func(tag string, v bool) {
		path := "/" + tag
		switch which {
		case 0: // ignore_cache_control: a no-store answer is stored iff the switch is on
			e.o.script = []originResp{{status: 200, header: hdr("Cache-Control", "no-store"), body: []byte(tag)}}
			before := len(e.o.seen)
			e.o.script = append(make([]originResp, before), e.o.script...)
			c1 := e.plain(newReq("GET", "o.test", path, "", nil))
			n1 := len(e.o.seen)
			c2 := e.plain(newReq("GET", "o.test", path, "", nil))
			vAssert(c1.status == 200 && c2.status == 200, "c19.switch.request-failed")
			vAssert((len(e.o.seen) == n1) == v, "c19.switch.ignore-cache-control-not-followed")
		case 1: // retry_on_invalid_range: an unsatisfiable range on a stored entry is refused iff the switch is off
			before := len(e.o.seen)
			e.o.script = append(make([]originResp, before), originResp{status: 200, header: hdr("Cache-Control", "max-age=60"), body: []byte("abc")})
			e.plain(newReq("GET", "o.test", path, "", nil))
			c := e.plain(newReq("GET", "o.test", path, "", hdr("Range", "bytes=7-")))
			if v {
				vAssert(c.status == 200 && string(c.body) == "abc", "c19.switch.retry-on-invalid-range-not-followed")
			} else {
				vAssert(c.status == 416, "c19.switch.retry-on-invalid-range-not-followed")
			}
		case 2: // retry_on_range_416: an origin 416 is retried without Range iff the switch is on
			before := len(e.o.seen)
			e.o.script = append(make([]originResp, before), originResp{status: 416, header: hdr(), body: []byte("no")},
				originResp{status: 200, header: hdr("Cache-Control", "no-store"), body: []byte("abc")})
			c := e.plain(newReq("GET", "o.test", path, "", hdr("Range", "bytes=0-1")))
			retried := false
			for _, s := range e.o.seen[before:] {
				if len(s.header["Range"]) == 0 {
					retried = true
				}
			}
			vAssert(retried == v, "c19.switch.retry-on-range-416-not-followed")
			if !v {
				vAssert(c.status == 416, "c19.switch.retry-on-range-416-not-followed")
			}
		default: // force_default_max_age: the origin's max-age=60 is replaced by the default (1 h) iff the switch is on
			before := len(e.o.seen)
			e.o.script = append(make([]originResp, before), originResp{status: 200, header: hdr("Cache-Control", "max-age=60"), body: []byte("abc")})
			req := newReq("GET", "o.test", path, "", nil)
			e.plain(req)
			m, _, err := e.p.cache.GetMetadata(cache.MakeFromRequest(req))
			vAssert(err == nil, "c04.storable-response-not-stored")
			if err == nil {
				life := m.Expires.Sub(m.TimeWritten)
				if v {
					vAssert(life == e.cfg.Proxy.CachePolicy.DefaultMaxAge.Read().Cast(), "c19.switch.force-default-max-age-not-followed")
				} else {
					vAssert(life == 60*time.Second, "c19.switch.force-default-max-age-not-followed")
				}
			}
		}
	}
	v0 := symChoice(2) == 1
	set(v0)
	phase("a", v0)
	v1 := symChoice(2) == 1
	if symChoice(2) == 1 {
		set(!v1) // back-to-back: an intermediate value that must not stick
		vReach("back-to-back")
	}
	set(v1)
	phase("b", v1)
	vReach("both-phases")
}

// C03 "an Expires that does not parse counts as already expired" on the request path, under
// every cache-policy configuration: whatever the policy lets be stored, a second request for a
// resource whose answer carried an unparseable (or past) Expires and no usable max-age is never
// answered without contacting the origin again - also later, after any time has passed, and
// after a janitor cycle.
func HarnessUnparseableExpiresPath() {
	e := newEnv(symChoice(2), 1<<30)
	ignore := symChoice(2) == 1
	e.cfg.Proxy.CachePolicy.IgnoreCacheControl.Stage(ignore)
	e.cfg.Proxy.CachePolicy.IgnoreCacheControl.CommitStaged()
	vDropPending()
	vClockFreeze(true)
	t0 := time.Now()
	h := hdr("Etag", "\"a\"")
	switch symChoice(4) {
	case 0:
		h["Expires"] = []string{"0"}
	case 1:
		h["Expires"] = []string{"0"}
		h["Cache-Control"] = []string{"no-cache, no-store, must-revalidate"}
	case 2:
		h["Expires"] = []string{"Thu, 01 Jan 1970 00:00:00 GMT"}
	default:
		h["Expires"] = []string{vTimeString(t0.Add(-time.Hour))}
	}
	bodies := []string{"v1", "v2", "v3", "v4", "v5"}
	for _, b := range bodies {
		e.o.script = append(e.o.script, originResp{status: 200, header: h, body: []byte(b)})
	}
	c1 := e.plain(newReq("GET", "o.test", "/x", "", nil))
	vAssert(c1.status == 200, "c03.first-response-wrong")
	if symChoice(2) == 1 {
		vClockFreeze(false)
		t1 := time.Now()
		vAssume(t1.Sub(t0) < 24*time.Hour)
		vClockFreeze(true)
		vReach("later")
	}
	before := len(e.o.seen)
	c2 := e.plain(newReq("GET", "o.test", "/x", "", nil))
	vReach("second-request")
	vAssert(c2.status == 200, "c03.second-response-wrong")
	vAssert(len(e.o.seen) > before, "c03.already-expired-response-served-without-origin-contact")
	// and what it gets is an answer the origin gave to THIS request, not a stored older one
	fresh := false
	for i := before; i < len(e.o.seen) && i < len(bodies); i++ {
		if string(c2.body) == bodies[i] {
			fresh = true
		}
	}
	vAssert(fresh, "c03.already-expired-response-served-without-origin-contact")
}
