package proxy

import (
	"bufio"
	"context"
	"crypto/tls"
	"errors"
	"io"
	"net"
	"net/http"
	"net/url"
	"reservoir/cache"
	"reservoir/config"
	"reservoir/proxy/responder"
	"reservoir/utils/bytesize"
	"reservoir/utils/duration"
	"time"
)

// Request-path kit shared by C03-C06, C08-C10: a real Proxy over a real cache backend, an
// origin stub (http.DefaultClient.Do is routed to originDo), and recording writers under
// the real responders.

type bodyReader struct {
	data    []byte
	pos     int
	closed  bool
	failAt  int // -1 never
	closing bool   // server-side body of a request that asked to close the connection: Close does NOT discard the rest (net/http transfer.go)
	failErr error  // nil: errOriginAbort
	onFail  func() // runs when the transfer breaks (e.g. the requesting client's context is cancelled)
}

// abortSpec: the transfer of this answer's body breaks after `at` bytes with `err`
type abortSpec struct {
	at   int
	err  error
	hook func()
}

var errOriginAbort = errors.New("origin transfer aborted")

func (b *bodyReader) Read(p []byte) (int, error) {
	if b.failAt >= 0 && b.pos >= b.failAt {
		if b.onFail != nil {
			b.onFail()
			b.onFail = nil
		}
		if b.failErr != nil {
			return 0, b.failErr
		}
		return 0, errOriginAbort
	}
	if b.pos >= len(b.data) {
		return 0, io.EOF
	}
	n := copy(p, b.data[b.pos:])
	if b.failAt >= 0 && b.pos+n > b.failAt {
		n = b.failAt - b.pos
	}
	b.pos += n
	return n, nil
}
func (b *bodyReader) Close() error { b.closed = true; return nil }

type originResp struct {
	status int
	header http.Header
	body   []byte
	err    error
	abort  *abortSpec
}

type seenReq struct {
	method, host, path, query string
	uri                       string // the request target as the client library puts it on the wire
	header                    http.Header
	body                      io.ReadCloser
	ctxErr                    error
}

type origin struct {
	script  []originResp // consumed in order; the last one repeats
	seen    []seenReq
	bodies  []*bodyReader
	onFetch func(n int) // hook: runs when the n-th request arrives (before answering)
	byPath  map[string]originResp // when set: the answer depends on the path only
	answer  func(req *http.Request) originResp // when set: the answer is computed from the request
}

func (o *origin) do(req *http.Request) (*http.Response, error) {
	n := len(o.seen)
	o.seen = append(o.seen, seenReq{method: req.Method, host: req.URL.Host, path: req.URL.Path, query: req.URL.RawQuery, uri: req.URL.RequestURI(),
		header: req.Header.Clone(), body: req.Body, ctxErr: req.Context().Err()})
	if o.onFetch != nil {
		o.onFetch(n)
	}
	if req.Body != nil {
		// documented http.Client contract: the request body is sent and "will be closed by the
		// underlying Transport, even on errors"
		defer req.Body.Close()
	}
	if err := req.Context().Err(); err != nil {
		return nil, err // documented http.Client contract: a cancelled context fails the exchange
	}
	if req.Body != nil {
		drain(req.Body)
	}
	i := n
	if i >= len(o.script) {
		i = len(o.script) - 1
	}
	if i < 0 {
		i = 0
	}
	var r originResp
	if o.answer != nil {
		r = o.answer(req)
	} else if o.byPath != nil {
		r = o.byPath[req.URL.Path]
	} else {
		r = o.script[i]
	}
	if r.err != nil {
		return nil, r.err
	}
	br := &bodyReader{data: r.body, failAt: -1}
	if r.abort != nil {
		br.failAt, br.failErr, br.onFail = r.abort.at, r.abort.err, r.abort.hook
	}
	o.bodies = append(o.bodies, br)
	return &http.Response{StatusCode: r.status, Status: "status", Proto: "HTTP/1.1", ProtoMajor: 1, ProtoMinor: 1,
		Header: r.header.Clone(), Body: br, ContentLength: int64(len(r.body)), Request: req}, nil
}

// ---- recording writers ----

type recWriter struct {
	h       http.Header
	status  int
	snap    http.Header // header as it was when the status line went out
	body    []byte
	written bool
}

func (w *recWriter) Header() http.Header { return w.h }
func (w *recWriter) WriteHeader(code int) {
	if !w.written {
		w.written = true
		w.status = code
		w.snap = w.h.Clone()
	}
}
func (w *recWriter) Write(b []byte) (int, error) {
	if !w.written {
		w.WriteHeader(200)
	}
	w.body = append(w.body, b...)
	return len(b), nil
}

// capture of one response as the client side sees it
type capture struct {
	answered bool
	status   int
	header   http.Header
	body     []byte
	length   int64 // RawHTTPResponder: ContentLength handed to http.Response.Write (-2: n/a)
	chunked  bool
	bodyErr  error
	// what (*http.Response).Write puts on the wire after the head (wireModel), tunnel only
	wireMethodKnown bool // resp.Request was set: Write knows whether this answers a HEAD
	wireTE          bool // "Transfer-Encoding: chunked" is sent
	wireCL          int64 // Content-Length sent (-1: none)
	wirePayload     int   // body bytes sent
	wireTerminator  bool  // the chunked terminator "0\r\n\r\n" is sent
	wireShort       bool  // fewer body bytes than the announced Content-Length (Write returns an error)
}

// wireModel: the framing decisions of (*http.Response).Write / transferWriter as documented
// ("consults StatusCode, ProtoMinor, Request.Method, TransferEncoding, Body, ContentLength"),
// for HTTP/1.1 responses.  Validated against the real function on the six shapes the tunnel
// responder produces (native probe recorded in DESIGN section 8.2).
func wireModel(resp *http.Response, body []byte, c *capture) {
	method := ""
	if resp.Request != nil {
		method = resp.Request.Method
		c.wireMethodKnown = true
	}
	toHEAD := method == "HEAD"
	te := len(resp.TransferEncoding) > 0 && resp.TransferEncoding[0] == "chunked"
	cl := resp.ContentLength
	hasBody := resp.Body != nil
	n := len(body)
	if cl == 0 && hasBody && n > 0 {
		cl = -1 // Response.Write probes the body: data although ContentLength is 0 means "unknown"
	}
	if toHEAD {
		hasBody = false
		if te {
			cl = -1
		}
	} else {
		if !hasBody {
			te = false
		}
		if te {
			cl = -1
		} else if !hasBody {
			cl = 0
		}
	}
	c.wireTE = te
	c.wireCL = -1
	if !te && (cl > 0 || (cl == 0 && method != "GET" && method != "HEAD")) {
		c.wireCL = cl
	}
	if hasBody {
		switch {
		case te:
			c.wirePayload, c.wireTerminator = n, true
		case cl == -1:
			c.wirePayload = n
		default:
			c.wirePayload = n
			if int64(n) > cl {
				c.wirePayload = int(cl)
			}
			c.wireShort = int64(n) < cl
		}
	}
}

// checkWire: what the client, which knows its own request method, makes of the bytes after
// the head (RFC 9112 section 6.3): a response to HEAD and every 1xx / 204 / 304 response ends
// with the head - anything sent after it is read as the beginning of the NEXT response on a
// kept-alive tunnel.
func checkWire(req *http.Request, c capture) {
	bodyless := req.Method == "HEAD" || c.status/100 == 1 || c.status == 204 || c.status == 304
	if bodyless {
		stray := c.wirePayload
		if c.wireTerminator {
			stray += 5
		}
		vAssert(stray == 0, "c10.stray-bytes-after-a-bodyless-response")
		if c.status/100 == 1 || c.status == 204 {
			vAssert(!c.wireTE, "c10.transfer-encoding-on-a-bodyless-status")
		}
		return
	}
	vAssert(!c.wireShort, "c10.response-shorter-than-announced")
	vAssert(c.wireTE || c.wireCL >= 0, "c10.response-without-framing-on-a-kept-alive-tunnel")
}

// rawSink receives what RawHTTPResponder hands to (*http.Response).Write.
type rawSink struct{ caps []capture }

func (s *rawSink) write(resp *http.Response) error {
	c := capture{answered: true, status: resp.StatusCode, header: resp.Header.Clone(), length: resp.ContentLength,
		chunked: len(resp.TransferEncoding) > 0}
	if resp.Body != nil {
		c.body, c.bodyErr = drain(resp.Body)
	}
	wireModel(resp, c.body, &c)
	s.caps = append(s.caps, c)
	return nil
}

func drain(r io.Reader) ([]byte, error) {
	var out []byte
	buf := make([]byte, 4)
	for i := 0; i < 32; i++ {
		n, err := r.Read(buf)
		out = append(out, buf[:n]...)
		if err == io.EOF {
			return out, nil
		}
		if err != nil {
			return out, err
		}
	}
	return out, errors.New("reader does not terminate")
}

type nopWriter struct{}

func (nopWriter) Write(b []byte) (int, error) { return len(b), nil }

// ---- proxy construction ----

const (
	backendMem  = 0
	backendFile = 1
)

type env struct {
	p   *Proxy
	cfg *config.Config
	o   *origin
	mem *cache.MemoryCache[cachedRequestInfo]
	fil *cache.FileCache[cachedRequestInfo]
}

var envShards = 2

func newEnv(backend int, limit int64) *env {
	cfg := config.NewDefault()
	cfg.Proxy.CachePolicy.IgnoreCacheControl.Stage(false)
	cfg.Proxy.CachePolicy.IgnoreCacheControl.CommitStaged()
	cfg.Proxy.CachePolicy.ForceDefaultMaxAge.Stage(false)
	cfg.Proxy.CachePolicy.ForceDefaultMaxAge.CommitStaged()
	cfg.Proxy.UpstreamDefaultHttps.Stage(false)
	cfg.Proxy.UpstreamDefaultHttps.CommitStaged()
	vDropPending()
	e := &env{cfg: cfg, o: &origin{}}
	// the proxy is built by the real constructor from the configuration (so that whatever state
	// NewProxy sets up is there), with the cache it creates picked up for direct inspection
	cfg.Cache.MaxCacheSize.Stage(bytesize.ByteSize(limit))
	cfg.Cache.MaxCacheSize.CommitStaged()
	cfg.Cache.LockShards.Stage(envShards)
	cfg.Cache.LockShards.CommitStaged()
	cfg.Cache.CleanupInterval.Stage(duration.Duration(time.Hour))
	cfg.Cache.CleanupInterval.CommitStaged()
	cfg.Cache.Memory.MemoryBudgetPercent.Stage(100)
	cfg.Cache.Memory.MemoryBudgetPercent.CommitStaged()
	cfg.Cache.File.Dir.Stage("var/pcache")
	cfg.Cache.File.Dir.CommitStaged()
	if backend == backendMem {
		vSetSysMem(1 << 40)
		cfg.Cache.Type.Stage(config.CacheTypeMemory)
	} else {
		cfg.Cache.Type.Stage(config.CacheTypeFile)
	}
	cfg.Cache.Type.CommitStaged()
	vDropPending()
	p, err := NewProxy(cfg, nil, context.Background())
	vAssert(err == nil && p != nil, "c18.accepted-config-cannot-start")
	vDropPending()
	e.p = p
	e.mem, _ = p.cache.(*cache.MemoryCache[cachedRequestInfo])
	e.fil, _ = p.cache.(*cache.FileCache[cachedRequestInfo])
	vSetOrigin(e.o.do)
	return e
}

func (e *env) setDefaultMaxAge(d time.Duration) {
	e.cfg.Proxy.CachePolicy.DefaultMaxAge.Stage(duration.Duration(d))
	e.cfg.Proxy.CachePolicy.DefaultMaxAge.CommitStaged()
	vDropPending()
}

func newReq(method, host, path, query string, h http.Header) *http.Request {
	if h == nil {
		h = http.Header{}
	}
	return &http.Request{Method: method, Host: host, URL: &url.URL{Path: path, RawQuery: query}, Header: h,
		Proto: "HTTP/1.1", ProtoMajor: 1, ProtoMinor: 1, Body: http.NoBody}
}

// plain runs one request through handleHTTP with the plain-HTTP responder.
func (e *env) plain(req *http.Request) capture {
	w := &recWriter{h: http.Header{}}
	r := responder.NewHTTPResponder(w)
	e.p.handleHTTP(r, req)
	if !w.written {
		// net/http: a handler that returns without writing gets an implicit "200 OK"
		w.WriteHeader(200)
	}
	return capture{answered: true, status: w.status, header: w.snap, body: w.body, length: -2}
}

// tunnel: the real handleCONNECT is driven with a hijackable writer, a stub CA, stubbed
// TLS and a request source that hands it the given requests; every response the tunnel
// writes arrives at the sink ((*http.Response).Write is the capture point).
type fakeAddr struct{}

func (fakeAddr) Network() string { return "tcp" }
func (fakeAddr) String() string  { return "client" }

type fakeConn struct{ closed int }

func (c *fakeConn) Read(b []byte) (int, error)         { return 0, io.EOF }
func (c *fakeConn) Write(b []byte) (int, error)        { return len(b), nil }
func (c *fakeConn) Close() error                       { c.closed++; return nil }
func (c *fakeConn) LocalAddr() net.Addr                { return fakeAddr{} }
func (c *fakeConn) RemoteAddr() net.Addr               { return fakeAddr{} }
func (c *fakeConn) SetDeadline(t time.Time) error      { return nil }
func (c *fakeConn) SetReadDeadline(t time.Time) error  { return nil }
func (c *fakeConn) SetWriteDeadline(t time.Time) error { return nil }

type hijackWriter struct {
	recWriter
	conn *fakeConn
}

func (w *hijackWriter) Hijack() (net.Conn, *bufio.ReadWriter, error) { return w.conn, nil, nil }

type stubCA struct{}

func (stubCA) GetCertForHost(host string) (*tls.Certificate, error) { return &tls.Certificate{}, nil }

// runTunnel sends reqs over one CONNECT tunnel and returns the captured responses to them
// (the "200 connection established" answer is dropped).
func (e *env) runTunnel(reqs ...*http.Request) []capture {
	s := &rawSink{}
	vSetResponseSink(s.write)
	i := 0
	vSetRequestSource(func() (*http.Request, error) {
		if i > 0 {
			// the tunnel is about to parse the next request from the same byte stream: whatever
			// is left of the previous request's body (neither read to its end nor closed - Close
			// of a server-side body discards the rest) would be taken for the next request line
			if b, ok := reqs[i-1].Body.(*bodyReader); ok {
				// (Close of a server-side body discards the rest - unless the request announced
				// "Connection: close" / HTTP/1.0, for which net/http skips the draining)
				vAssert(b.pos >= len(b.data) || (b.closed && !b.closing), "c10.unread-request-body-left-on-the-tunnel")
			}
		}
		if i >= len(reqs) {
			return nil, io.EOF
		}
		r := reqs[i]
		i++
		return r, nil
	})
	if e.p.ca == nil {
		e.p.ca = stubCA{}
	}
	w := &hijackWriter{recWriter: recWriter{h: http.Header{}}, conn: &fakeConn{}}
	connect := newReq("CONNECT", "o.test:443", "", "", nil)
	e.p.handleCONNECT(responder.NewHTTPResponder(w), connect)
	if len(s.caps) == 0 {
		return nil
	}
	caps := s.caps[1:]
	for k := 0; k < len(caps) && k < len(reqs); k++ {
		checkWire(reqs[k], caps[k])
	}
	return caps
}

// tunnelOne: one request over its own tunnel.
func (e *env) tunnelOne(req *http.Request) capture {
	caps := e.runTunnel(req)
	if len(caps) == 0 {
		return capture{answered: false}
	}
	return caps[len(caps)-1]
}

func hdr(kv ...string) http.Header {
	h := http.Header{}
	for i := 0; i+1 < len(kv); i += 2 {
		h[kv[i]] = append(h[kv[i]], kv[i+1])
	}
	return h
}

func one(h http.Header, k string) string {
	if v := h[k]; len(v) > 0 {
		return v[0]
	}
	return ""
}
