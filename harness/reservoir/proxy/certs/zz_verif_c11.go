package certs

import (
	"crypto/ecdsa"
	"crypto/tls"
	"crypto/x509"
	"net"
	"reservoir/utils/syncmap"
	"time"
)

type fakeCAKey struct{ id int }

func newTestCA() *PrivateCA {
	return &PrivateCA{key: &fakeCAKey{id: 1}, cert: &x509.Certificate{}, certs: syncmap.New[string, *tls.Certificate]()}
}

func vC11Template() *x509.Certificate                                  { return nil }
func vC11Args() (parent *x509.Certificate, pub, priv, marshalled any) { return nil, nil, nil, nil }
func vC11Key() *ecdsa.PrivateKey                                       { return nil }
func vC11IsIP() bool                                                   { return false }

// HarnessCertForHost: what reservoir asks the crypto library to sign, for which name, with
// which validity, under which CA — for every CONNECT target string up to len bytes.
func HarnessCertForHost() {
	ca := newTestCA()
	var target string
	if symChoice(2) == 0 {
		target = symString(vParam("len", 5))
	} else {
		target = "[" + symString(2) + "]:" + symString(2) // IPv6-literal shape
	}
	for i := 0; i < len(target); i++ {
		vAssume(target[i] < 0x80)
	}
	wantHost, _, splitErr := net.SplitHostPort(target)
	vClockFreeze(true)
	now := time.Now()
	var cert *tls.Certificate
	var err error
	vNoPanic(func() { cert, err = ca.GetCertForHost(target) }, "c16.getcert-panic")
	if splitErr != nil {
		vReach("bad-target")
		vAssert(err != nil && cert == nil, "c11.cert-for-unsplittable-target")
		return
	}
	vReach("good-target")
	vAssert(err == nil && cert != nil && cert.Leaf != nil, "c11.no-cert-for-valid-target")
	if err != nil || cert == nil {
		return
	}
	t := vC11Template()
	vAssert(cert.Leaf == t, "c11.leaf-is-not-the-signed-template")
	// exactly the host part, as IP or as DNS name
	if vC11IsIP() {
		vReach("ip-san")
		vAssert(len(t.IPAddresses) == 1 && len(t.DNSNames) == 0, "c11.san-not-exactly-the-host")
	} else {
		vReach("dns-san")
		vAssert(len(t.DNSNames) == 1 && len(t.IPAddresses) == 0 && t.DNSNames[0] == wantHost, "c11.san-not-exactly-the-host")
	}
	// validity window
	vAssert(!t.NotBefore.After(now) && t.NotAfter.After(now), "c11.not-inside-validity")
	vAssert(t.NotAfter.Sub(t.NotBefore) == 240*time.Hour, "c11.validity-not-240h")
	// signed by the configured CA, for the freshly generated key
	parent, pub, priv, marshalled := vC11Args()
	k := vC11Key()
	vAssert(parent == ca.cert, "c11.not-signed-under-configured-ca")
	vAssert(priv == ca.key, "c11.not-signed-with-ca-key")
	pk, isPub := pub.(*ecdsa.PublicKey)
	vAssert(isPub && pk == &k.PublicKey, "c11.public-key-not-of-generated-key")
	mk, isPriv := marshalled.(*ecdsa.PrivateKey)
	vAssert(isPriv && mk == k, "c11.private-key-mismatch")
}

// HarnessCertReuse: history of calls for one host under a symbolic clock: reuse while
// valid, replacement once expired.
func HarnessCertReuse() {
	ca := newTestCA()
	host := "example.org:443"
	c1, err := ca.GetCertForHost(host)
	vAssert(err == nil && c1 != nil, "c11.no-cert-for-valid-target")
	n := vParam("calls", 3)
	cur := c1
	for i := 1; i < n; i++ {
		now := time.Now() // symbolic, non-decreasing
		vClockFreeze(true)
		c, err := ca.GetCertForHost(host)
		vClockFreeze(false)
		vAssert(err == nil && c != nil, "c11.no-cert-for-valid-target")
		if cur.Leaf.NotAfter.After(now) {
			vReach("still-valid")
			vAssert(c == cur, "c11.valid-cert-not-reused")
		} else if cur.Leaf.NotAfter.Before(now) {
			vReach("expired")
			vAssert(c != cur && c.Leaf.NotAfter.After(now), "c11.expired-cert-served")
		}
		cur = c
		// another host never gets this certificate
		o, err := ca.GetCertForHost("other.example:443")
		vAssert(err == nil && o != cur, "c11.cert-shared-between-hosts")
	}
}

// HarnessCertConcurrent: "also when many tunnels to a new host open at once".  Two tunnels ask
// for the certificate of one host (new to the cache, or cached but expired, or cached and valid);
// the two calls are interleaved at every lock boundary (the certificate map's Get / Delete /
// Set) and atomic operation, with a bounded number of switches between them.  Both get a certificate naming exactly the host and
// inside its validity period, the map ends with one of them, and a later tunnel reuses that one.
func HarnessCertConcurrent() {
	ca := newTestCA()
	host := "example.org:443"
	vClockFreeze(true)
	now := time.Now()
	pre := symChoice(3)
	var c0 *tls.Certificate
	switch pre {
	case 1: // cached and expired
		c0 = &tls.Certificate{Leaf: &x509.Certificate{DNSNames: []string{"example.org"}, NotBefore: now.Add(-241 * time.Hour), NotAfter: now.Add(-time.Hour)}}
		ca.certs.Set("example.org", c0)
		vReach("pre-expired")
	case 2: // cached and valid
		c0 = &tls.Certificate{Leaf: &x509.Certificate{DNSNames: []string{"example.org"}, NotBefore: now.Add(-time.Hour), NotAfter: now.Add(239 * time.Hour)}}
		ca.certs.Set("example.org", c0)
		vReach("pre-valid")
	default:
		vReach("pre-new")
	}
	var c2 *tls.Certificate
	var err2 error
	// the second tunnel's call runs concurrently: every interleaving of the two calls at their
	// lock boundaries and atomic operations with at most `switches` switches to the second one
	vInterposeAtomics(true)
	vConcurrent(func() { c2, err2 = ca.GetCertForHost(host) }, vParam("switches", 2))
	c1, err1 := ca.GetCertForHost(host)
	vJoin()
	good := func(c *tls.Certificate, err error) bool {
		return err == nil && c != nil && c.Leaf != nil && len(c.Leaf.DNSNames) == 1 && c.Leaf.DNSNames[0] == "example.org" &&
			len(c.Leaf.IPAddresses) == 0 && !c.Leaf.NotBefore.After(now) && c.Leaf.NotAfter.After(now)
	}
	vAssert(good(c1, err1), "c11.concurrent.first-tunnel-without-valid-host-cert")
	if vInterposed() > 0 {
		vReach("interleaved")
	}
	vReach("second-tunnel-ran")
	vAssert(good(c2, err2), "c11.concurrent.second-tunnel-without-valid-host-cert")
	if pre == 2 {
		vAssert(c1 == c0 && c2 == c0, "c11.valid-cert-not-reused")
	}
	held, ok := ca.certs.Get("example.org")
	vAssert(ok && (held == c1 || held == c2), "c11.concurrent.cache-holds-neither-issued-cert")
	c3, err3 := ca.GetCertForHost(host)
	vAssert(err3 == nil && c3 == held, "c11.valid-cert-not-reused")
	o, erro := ca.GetCertForHost("other.example:443")
	vAssert(erro == nil && o != c1 && o != c2, "c11.cert-shared-between-hosts")
}


// VNewTestCA exposes the test CA to the harnesses of package proxy (analysis overlay only).
func VNewTestCA() *PrivateCA { return newTestCA() }

// HarnessRaceCertIssuance (C15, "certificate issuance"): two tunnels to two different new
// hosts issue their certificates concurrently; whatever state of the CA both touch must be
// synchronised.
func HarnessRaceCertIssuance() {
	ca := newTestCA()
	other := "b.example:443"
	if symChoice(2) == 1 {
		other = "a.example:443" // or to the same new host
	}
	vRaceBegin()
	vInterpose(func() { ca.GetCertForHost(other) }, 1)
	ca.GetCertForHost("a.example:443")
	vInterpose(nil, 0)
	vRaceEnd()
	if vInterposed() > 0 {
		vReach("pair-ran")
	}
}
