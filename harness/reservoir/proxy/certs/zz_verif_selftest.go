package certs

import "net"

func SelftestSplitHostPort() {
	s := symString(64)
	h, p, err := net.SplitHostPort(s)
	if err != nil {
		vTrace("error")
		return
	}
	vTrace(h + "|" + p)
}
