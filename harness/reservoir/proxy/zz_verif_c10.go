package proxy

import (
	"io"
	"net/http"

	"reservoir/proxy/certs"
	"reservoir/proxy/responder"
	"time"
)

// C10: each exchange on a CONNECT tunnel depends only on its own request and equals plain
// proxying.  Self-composition: exchange 2 on a shared tunnel vs. the same exchange on a
// fresh tunnel vs. plain HTTP, from the same cache state and origin answers.

type exchange struct {
	method  string
	path    string
	rng     string
	reqBody bool // the request carries a body (always for POST; for the same-resource exchange by choice)
	connClose bool // ... and announces "Connection: close" (the tunnel loop goes on reading all the same)
	resp    originResp
}

func symExchange(tag string) exchange {
	x := exchange{method: []string{"GET", "HEAD", "POST"}[symChoice(3)], path: "/" + tag}
	x.reqBody = x.method == "POST"
	if symChoice(2) == 1 {
		x.rng = "bytes=0-0"
	}
	h := hdr()
	switch symChoice(4) {
	case 0:
		h["Cache-Control"] = []string{"max-age=60"}
	case 1:
		h["Cache-Control"] = []string{"no-store"}
		h["X-A"] = []string{tag}
	case 2:
		h["Content-Type"] = []string{"text/" + tag}
	}
	body := []byte(tag + "-body")
	if symChoice(2) == 1 {
		h["Content-Length"] = []string{"6"}
	}
	status := []int{200, 404, 416}[symChoice(3)]
	x.resp = originResp{status: status, header: h, body: body}
	return x
}

func (x exchange) request() *http.Request {
	h := http.Header{}
	if x.rng != "" {
		h["Range"] = []string{x.rng}
	}
	r := newReq(x.method, "o.test", x.path, "", h)
	if x.reqBody {
		r.Body = &bodyReader{data: []byte("rq"), failAt: -1, closing: x.connClose}
		r.ContentLength = 2
		if x.connClose {
			r.Header["Connection"] = []string{"close"}
		}
	}
	return r
}

func sameCapture(a, b capture, id string) {
	vAssert(a.answered == b.answered, id+".answered-differs")
	vAssert(a.status == b.status, id+".status-differs")
	vAssert(string(a.body) == string(b.body), id+".body-differs")
	names := []string{"Content-Length", "Content-Range", "Content-Type", "X-Content-Type-Options", "X-A", "Etag", "Age", "Cache-Control", "X-Cache", "Accept-Ranges", "Last-Modified", "Via"}
	for _, n := range names {
		if n == "Last-Modified" || n == "Age" {
			vAssert(len(a.header[n]) == len(b.header[n]), id+".header-"+n+"-presence-differs")
			continue
		}
		vAssert(sameValues(a.header[n], b.header[n]), id+".header-"+n+"-differs")
	}
}

func HarnessTunnelIsolation() {
	x1 := symExchange("one")
	var x2 exchange
	if symChoice(2) == 1 {
		// the later exchange addresses the SAME resource: what the earlier one left in the cache
		// (and only that) may show, and it must show exactly as it does over plain HTTP
		x2 = exchange{method: []string{"GET", "HEAD", "POST"}[symChoice(3)], path: x1.path, resp: x1.resp}
		if symChoice(2) == 1 {
			x2.rng = "bytes=0-0"
		}
		x2.reqBody = x2.method == "POST" || symChoice(2) == 1 // also a GET / HEAD with a body (answered from the store)
		x2.connClose = x2.reqBody && symChoice(2) == 1
		vReach("same-resource")
	} else {
		x2 = symExchange("two")
	}
	run := func(shared bool, viaPlain bool) capture {
		e := newEnv(backendMem, 1<<30)
		e.o.byPath = map[string]originResp{x1.path: x1.resp, x2.path: x2.resp}
		vClockFreeze(true)
		if viaPlain {
			e.plain(x1.request())
			e.o.seen = nil
			return e.plain(x2.request())
		}
		if shared {
			caps := e.runTunnel(x1.request(), x2.request())
			if len(caps) < 2 {
				return capture{answered: false}
			}
			return caps[1]
		}
		e.tunnelOne(x1.request())
		e.o.seen = nil
		return e.tunnelOne(x2.request())
	}
	shared := run(true, false)
	fresh := run(false, false)
	vReach("compared")
	sameCapture(shared, fresh, "c10.shared-vs-fresh-tunnel")
	vAssert(shared.length == fresh.length && shared.chunked == fresh.chunked, "c10.shared-vs-fresh-tunnel.framing-differs")
	plain := run(false, true)
	sameCapture(fresh, plain, "c10.tunnel-vs-plain")
}

// HarnessTunnelManyBytes: "however many requests the tunnel carries".  n requests of a declared
// wire size (a 600 KiB upload each: together far more than any per-request limit) follow one
// another on one tunnel; each is read from the tunnel's byte stream through whatever readers
// the proxy wrapped around the connection, and each is answered like the first.
func HarnessTunnelManyBytes() {
	e := newEnv(backendMem, 1<<30)
	e.o.script = []originResp{{status: 200, header: hdr("Cache-Control", "no-store"), body: []byte("ok")}}
	n := vParam("exchanges", 3)
	size := 600 << 10
	if symChoice(2) == 1 {
		size = 300 // ordinary small requests
	}
	s := &rawSink{}
	vSetResponseSink(s.write)
	i := 0
	vSetRequestSource(func() (*http.Request, error) {
		if i >= n {
			return nil, io.EOF
		}
		i++
		r := newReq("POST", "o.test", "/up", "", nil)
		r.Body = &bodyReader{data: []byte("rq"), failAt: -1}
		vNextRequestBytes(size)
		return r, nil
	})
	e.p.ca = stubCA{}
	w := &hijackWriter{recWriter: recWriter{h: http.Header{}}, conn: &fakeConn{}}
	vClockFreeze(true)
	e.p.handleCONNECT(responder.NewHTTPResponder(w), newReq("CONNECT", "o.test:443", "", "", nil))
	vReach("tunnel-closed")
	vAssert(len(s.caps) == n+1, "c10.later-exchange-on-the-tunnel-unanswered")
	for k := 1; k < len(s.caps); k++ {
		vAssert(s.caps[k].status == 200 && string(s.caps[k].body) == "ok", "c10.later-exchange-on-the-tunnel-differs")
	}
}

// HarnessPresentedCertAcrossExpiry (C11: "the client is presented a certificate that ... is
// inside its validity period ... replaced once expired", observed at the TLS server
// configuration of handleCONNECT): tunnels to one target are opened at arbitrary times, also
// more than the certificates' lifetime apart; what each tunnel's TLS server would present is a
// certificate for that host that is valid at that moment.
func HarnessPresentedCertAcrossExpiry() {
	e := newEnv(backendMem, 1<<30)
	e.p.ca = certs.VNewTestCA()
	e.o.script = []originResp{{status: 200, header: hdr("Cache-Control", "no-store"), body: []byte("ok")}}
	n := vParam("tunnels", 3)
	for k := 0; k < n; k++ {
		vClockFreeze(false)
		now := time.Now() // symbolic, non-decreasing: any gap, also beyond 240 h
		vClockFreeze(true)
		c := e.tunnelOne(newReq("GET", "o.test", "/p", "", nil))
		vAssert(c.answered && c.status == 200, "c11.tunnel-not-served")
		leaf := vPresentedLeaf()
		vAssert(leaf != nil, "c11.no-cert-for-valid-target")
		if leaf == nil {
			return
		}
		vReach("presented")
		vAssert(len(leaf.DNSNames) == 1 && leaf.DNSNames[0] == "o.test", "c11.san-not-exactly-the-host")
		// x509 validity is inclusive at both ends
		vAssert(!leaf.NotBefore.After(now) && !now.After(leaf.NotAfter), "c11.expired-cert-served")
	}
}

// HarnessTunnelOneAnswerPerRequest: every request on a tunnel gets exactly ONE response - also
// a Range request the proxy refuses itself (the range does not fit the stored representation),
// a range it serves, and a malformed one - and the exchange after it is answered normally.
func HarnessTunnelOneAnswerPerRequest() {
	e := newEnv(symChoice(2), 1<<30)
	if symChoice(2) == 1 {
		e.cfg.Proxy.RetryOnInvalidRange.Stage(true)
		e.cfg.Proxy.RetryOnInvalidRange.CommitStaged()
		vDropPending()
	}
	h := hdr("Cache-Control", "max-age=60", "Etag", "\"a\"")
	e.o.script = []originResp{{status: 200, header: h, body: []byte("0123456789")}}
	vClockFreeze(true)
	c0 := e.plain(newReq("GET", "o.test", "/obj", "", nil))
	vAssert(c0.status == 200, "c10.priming-failed")
	rng := []string{"bytes=50-60", "bytes=2-5", "bytes=5-2", "bytes=-0"}[symChoice(4)]
	s := &rawSink{}
	vSetResponseSink(s.write)
	reqs := []*http.Request{newReq("GET", "o.test", "/obj", "", hdr("Range", rng)), newReq("GET", "o.test", "/obj", "", nil)}
	i := 0
	var answersBefore []int
	vSetRequestSource(func() (*http.Request, error) {
		answersBefore = append(answersBefore, len(s.caps))
		if i >= len(reqs) {
			return nil, io.EOF
		}
		i++
		return reqs[i-1], nil
	})
	e.p.ca = stubCA{}
	w := &hijackWriter{recWriter: recWriter{h: http.Header{}}, conn: &fakeConn{}}
	e.p.handleCONNECT(responder.NewHTTPResponder(w), newReq("CONNECT", "o.test:443", "", "", nil))
	vReach("tunnel-closed")
	// answersBefore[k]: responses written when request k was about to be read (the first one is
	// the answer to CONNECT)
	vAssert(len(answersBefore) == 3, "c10.later-exchange-on-the-tunnel-unanswered")
	for k := 1; k < len(answersBefore); k++ {
		vAssert(answersBefore[k]-answersBefore[k-1] == 1, "c10.not-exactly-one-response-to-a-request")
	}
	if len(s.caps) == 3 {
		last := s.caps[2]
		vAssert(last.status == 200 && string(last.body) == "0123456789", "c10.later-exchange-on-the-tunnel-differs")
	}
}
