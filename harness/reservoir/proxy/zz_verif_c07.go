package proxy

import (
	"net/http"
	"time"
)

// C07 deep: handleRangeRequest over a stored representation: 206 headers and bytes,
// refusals, If-Range.
func HarnessRangeServe() {
	backend := symChoice(2)
	e := newEnv(backend, 1<<30)
	if symChoice(2) == 1 {
		e.cfg.Proxy.RetryOnInvalidRange.Stage(true)
		e.cfg.Proxy.RetryOnInvalidRange.CommitStaged()
		vDropPending()
	}
	retry := e.cfg.Proxy.RetryOnInvalidRange.Read()
	full := []byte("0123456789")
	size := int64(len(full))
	lm := symTime()
	etag := "\"e1\""
	if symChoice(2) == 1 {
		etag = "W/\"e1\"" // the origin's validator is a weak one
	}
	h := hdr("Cache-Control", "max-age=60", "Etag", etag, "Last-Modified", vTimeString(lm), "Content-Type", "text/plain")
	e.o.script = []originResp{{status: 200, header: h, body: full}}
	vClockFreeze(true)
	c0 := e.plain(newReq("GET", "o.test", "/big", "", nil))
	vAssert(c0.status == 200, "c07.priming-request-failed")
	// the range request: "bytes=" first "-" last with one-digit (or empty) numbers, or a suffix
	d1, d2 := symString(1), symString(1)
	for _, d := range []string{d1, d2} {
		if len(d) == 1 {
			vAssume(d[0] >= '0' && d[0] <= '9')
		}
	}
	spec := d1 + "-" + d2
	rh := http.Header{"Range": {"bytes=" + spec}}
	ifRange := symChoice(4)
	switch ifRange {
	case 1:
		rh["If-Range"] = []string{etag}
	case 2:
		// any other entity tag: 4 or 6 free bytes ("e1" and W/"e1" are among them); with
		// tagfree=1 any length 1..7
		var other string
		if vParam("tagfree", 0) == 1 {
			other = symStringN(7)
		} else if symChoice(2) == 0 {
			other = symString(4)
		} else {
			other = symString(6)
		}
		vAssume(other != etag && len(other) > 0)
		rh["If-Range"] = []string{other}
	case 3:
		rh["If-Range"] = []string{vTimeString(symTime())}
	}
	viaTunnel := symChoice(vParam("transports", 2)) == 1
	req := newReq("GET", "o.test", "/big", "", rh)
	var c capture
	if viaTunnel {
		c = e.tunnelOne(req)
	} else {
		c = e.plain(req)
	}
	vReach("answered")
	vAssert(c.answered, "c07.range-request-unanswered")
	// reference: what the RFC says about this spec
	var s, t int64 = -1, -1
	wellFormed := true
	switch {
	case len(d1) == 1 && len(d2) == 1:
		s, t = int64(d1[0]-'0'), int64(d2[0]-'0')
	case len(d1) == 1:
		s, t = int64(d1[0]-'0'), size-1
	case len(d2) == 1:
		n := int64(d2[0] - '0')
		s, t = size-n, size-1
		if n == 0 {
			wellFormed = false // unsatisfiable suffix
		}
	default:
		wellFormed = false
	}
	satisfiable := wellFormed && s >= 0 && s <= t && t < size
	switch c.status {
	case 206:
		vReach("206")
		a, okA := vNumIn(one(c.header, "Content-Range"), "bytes ")
		b, okB := vNumIn(one(c.header, "Content-Range"), "-")
		n, okN := vNumIn(one(c.header, "Content-Range"), "/")
		cl, okL := vNumIn(one(c.header, "Content-Length"), "")
		vAssert(okA && okB && okN && okL, "c07.206-headers-missing")
		vAssert(0 <= a && a <= b && b < size && n == size, "c07.206-content-range-outside-representation")
		vAssert(cl == b-a+1, "c07.206-content-length-differs-from-slice")
		vAssert(int64(len(c.body)) == b-a+1 && string(c.body) == string(full[a:b+1]), "c07.206-body-is-not-the-announced-slice")
		vAssert(satisfiable && a == s && b == t, "c07.206-is-not-the-requested-range")
		vAssert(ifRange != 2, "c07.if-range-mismatch-served-partial")
	case 200:
		vReach("full-200")
		vAssert(string(c.body) == string(full), "c07.full-200-body-differs")
		vAssert(!satisfiable || ifRange == 2 || ifRange == 3 || retry, "c07.satisfiable-range-not-served")
	case 416:
		vReach("416")
		n, okN := vNumIn(one(c.header, "Content-Range"), "*/")
		vAssert(okN && n == size, "c07.416-does-not-state-the-size")
		vAssert(!satisfiable, "c07.satisfiable-range-refused")
		vAssert(!retry, "c07.416-although-retry-configured")
	default:
		vAssert(false, "c07.range-answered-with-another-status")
	}
	// what the range exchange leaves behind: a following request for the whole representation
	// (also one whose Range the proxy does not parse and therefore ignores) gets the full 200
	// with the representation's own headers - nothing of the slice
	fh := http.Header{}
	if symChoice(2) == 1 {
		fh["Range"] = []string{"bytes=x-y"}
	}
	c3 := e.plain(newReq("GET", "o.test", "/big", "", fh))
	vReach("followed-by-full-get")
	vAssert(c3.answered && c3.status == 200 && string(c3.body) == string(full), "c07.full-200-body-differs")
	vAssert(len(c3.header["Content-Range"]) == 0, "c07.slice-headers-on-a-later-full-response")
	if cl, okL := vNumIn(one(c3.header, "Content-Length"), ""); okL {
		vAssert(cl == size, "c07.slice-headers-on-a-later-full-response")
	}
	_ = time.Now
}
