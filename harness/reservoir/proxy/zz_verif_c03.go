package proxy

import (
	"reservoir/cache"
	"time"
)

// C03/C04/C06 deep: request histories over one resource with a symbolic clock.

// HarnessFreshness: GET (miss, stored) ; advance ; GET ; advance ; GET.  A response is
// served without origin contact only while fresh; HIT label iff served that way; Age and
// ttl agree with the store time.
func HarnessFreshness() {
	backend := symChoice(2)
	e := newEnv(backend, 1<<30)
	e.setDefaultMaxAge(time.Duration(symRange(1, 2)) * 10 * time.Second)
	dflt := e.cfg.Proxy.CachePolicy.DefaultMaxAge.Read().Cast()
	if symChoice(2) == 1 {
		e.cfg.Proxy.CachePolicy.ForceDefaultMaxAge.Stage(true)
		e.cfg.Proxy.CachePolicy.ForceDefaultMaxAge.CommitStaged()
		vDropPending()
	}
	force := e.cfg.Proxy.CachePolicy.ForceDefaultMaxAge.Read()
	// origin: 200 with one of the lifetime forms; later 304 to revalidations
	var lifetime time.Duration
	h := hdr("Etag", "\"v1\"")
	switch symChoice(3) {
	case 0:
		h["Cache-Control"] = []string{"max-age=5"}
		lifetime = 5 * time.Second
	case 1:
		lifetime = dflt // no directive: configured default
	case 2:
		h["Cache-Control"] = []string{"public, max-age=7"}
		lifetime = 7 * time.Second
	}
	if force {
		lifetime = dflt
	}
	e.o.script = []originResp{{status: 200, header: h, body: []byte("AB")}, {status: 304, header: hdr()}}
	req1 := newReq("GET", "o.test", "/r", "", nil)
	key := cache.MakeFromRequest(req1)
	c1 := e.plain(req1)
	vAssert(c1.answered && c1.status == 200 && string(c1.body) == "AB", "c03.first-response-wrong")
	vAssert(len(e.o.seen) == 1, "c03.first-request-did-not-reach-origin")
	vAssert(one(c1.header, "X-Cache") == "MISS", "c03.miss-labelled-otherwise")
	m, _, merr := e.p.cache.GetMetadata(key)
	vAssert(merr == nil, "c04.storable-response-not-stored")
	if merr != nil {
		return
	}
	// the stored lifetime is at most the one the statement allows
	vAssert(m.Expires.Sub(m.TimeWritten) <= lifetime, "c03.stored-lifetime-exceeds-allowed")
	n := vParam("requests", 2)
	for i := 0; i < n; i++ {
		seenBefore := len(e.o.seen)
		expBefore := m.Expires
		written := m.TimeWritten
		t0 := time.Now() // symbolic, >= every earlier reading
		contended := symChoice(2) == 1
		var tLock time.Time
		if contended {
			// the key lock is contended: time passes between the start of the lookup and the
			// moment the lock is obtained (the clock is free); that moment is recorded
			first := true
			vOnLockAcquired(func() {
				if first {
					first = false
					tLock = time.Now()
					vClockFreeze(true)
				}
			})
		} else {
			vClockFreeze(true)
		}
		c := e.plain(newReq("GET", "o.test", "/r", "", nil))
		vOnLockAcquired(nil)
		vClockFreeze(false)
		contacted := len(e.o.seen) > seenBefore
		if contended {
			vReach("contended-lookup")
			if !contacted {
				// served from the store although the lifetime had elapsed when the lock was obtained?
				vAssert(!tLock.After(expBefore), "c03.served-although-expired-when-the-key-lock-was-obtained")
			}
			continue
		}
		vAssert(c.answered && c.status == 200 && string(c.body) == "AB", "c03.later-response-wrong")
		xc := one(c.header, "X-Cache")
		m, _, merr = e.p.cache.GetMetadata(key)
		vAssert(merr == nil, "c03.entry-vanished")
		if merr != nil {
			return
		}
		if !contacted {
			vReach("served-from-store")
			vAssert(!t0.After(expBefore), "c03.served-after-lifetime-elapsed")
			vAssert(xc == "HIT", "c03.hit-not-labelled-hit")
			age, okA := vNumIn(one(c.header, "Age"), "")
			vAssert(okA && age == int64(t0.Sub(written)/time.Second), "c03.age-inconsistent")
			ttl, okT := vNumIn(one(c.header, "Cache-Status"), "ttl=")
			vAssert(okT && ttl == int64(expBefore.Sub(t0)/time.Second), "c03.ttl-inconsistent")
		} else {
			vReach("origin-contacted")
			vAssert(t0.After(expBefore), "c03.origin-contacted-while-fresh")
			vAssert(xc != "HIT", "c03.origin-contact-labelled-hit")
			if xc == "REVALIDATED" {
				vReach("revalidated")
				// a 304 renews the lifetime by the configured default
				vAssert(m.Expires.Equal(t0.Add(dflt)), "c06.revalidation-does-not-renew-by-default")
			}
		}
	}
}

// HarnessStorability: first response from a menu of (method, status, directives); an
// identical second request reaches the origin again unless the first one was storable.
func HarnessStorability() {
	backend := symChoice(2)
	e := newEnv(backend, 1<<30)
	ignore := symChoice(2) == 1
	if ignore {
		e.cfg.Proxy.CachePolicy.IgnoreCacheControl.Stage(true)
		e.cfg.Proxy.CachePolicy.IgnoreCacheControl.CommitStaged()
		vDropPending()
	}
	methods := []string{"GET", "HEAD", "POST"}
	method := methods[symChoice(len(methods))]
	statuses := []int{200, 203, 206, 301, 404, 500}
	status := statuses[symChoice(len(statuses))]
	ccs := []string{"", "max-age=60", "no-store", "no-cache", "private", "max-age=0", "public, max-age=60, no-cache", "MAX-AGE=60", "No-Store, max-age=60"}
	ci := symChoice(len(ccs))
	h := hdr()
	if ccs[ci] != "" {
		h["Cache-Control"] = []string{ccs[ci]}
	}
	forbids := ci == 2 || ci == 3 || ci == 4 || ci == 5 || ci == 6 || ci == 8
	// every origin answer carries its own version, so a body tells during which request it was fetched
	e.o.script = []originResp{{status: status, header: h, body: []byte("v1")}, {status: status, header: h, body: []byte("v2")},
		{status: status, header: h, body: []byte("v3")}, {status: status, header: h, body: []byte("v4")}}
	vClockFreeze(true)
	c1 := e.plain(newReq(method, "o.test", "/s", "", nil))
	vAssert(c1.answered && c1.status == status, "c08.status-not-relayed")
	afterFirst := len(e.o.seen)
	c2 := e.plain(newReq(method, "o.test", "/s", "", nil))
	vAssert(c2.answered && c2.status == status, "c08.status-not-relayed")
	second := len(e.o.seen) > afterFirst
	if afterFirst > 1 {
		vNote("an uncacheable GET is fetched from the origin twice (the in-flight fetch is discarded and repeated by its own caller)")
	}
	storable := method == "GET" && status == 200 && (ignore || !forbids)
	vReach("compared")
	if storable {
		vReach("storable")
		vAssert(!second, "c04.storable-response-not-reused")
		if method != "HEAD" {
			vAssert(string(c2.body) == "v1", "c01.reused-body-differs")
		}
	} else {
		vReach("not-storable")
		vAssert(second, "c04.unstorable-response-reused")
		if method != "HEAD" {
			fresh := false
			for i := afterFirst; i < 4; i++ {
				if string(c2.body) == string(e.o.script[i].body) {
					fresh = true
				}
			}
			vAssert(fresh, "c04.unstorable-response-body-reused")
		}
	}
}

// HarnessRange416Retry: a Range GET that the origin answers 416 is retried without Range;
// whether the retried 200 is stored must follow from ITS directives.
func HarnessRange416Retry() {
	e := newEnv(symChoice(2), 1<<30)
	ccs := []string{"", "max-age=60", "no-store", "private", "no-cache", "max-age=0"}
	ci := symChoice(len(ccs))
	h := hdr()
	if ccs[ci] != "" {
		h["Cache-Control"] = []string{ccs[ci]}
	}
	forbids := ci >= 2
	h416 := hdr()
	if symChoice(2) == 1 {
		h416["Cache-Control"] = []string{"max-age=60"} // the 416's own directives are irrelevant for the 200
	}
	retryStatus := []int{200, 200, 503}[symChoice(3)]
	e.o.script = []originResp{{status: 416, header: h416, body: []byte("range-error")}, {status: retryStatus, header: h, body: []byte("r1")},
		{status: 200, header: h, body: []byte("r2")}, {status: 200, header: h, body: []byte("r3")}}
	vClockFreeze(true)
	c1 := e.plain(newReq("GET", "o.test", "/q", "", hdr("Range", "bytes=5-9")))
	vAssert(c1.answered, "c16.request-unanswered")
	vReach("range-416-retried")
	// the client gets the retried answer: its status with its headers and body (a stored
	// 200 may be answered as the requested slice or a refusal for that range)
	if retryStatus != 200 || forbids {
		vAssert(c1.status == retryStatus && string(c1.body) == "r1", "c08.retried-answer-status-or-body-changed")
	}
	if retryStatus != 200 {
		return
	}
	after := len(e.o.seen)
	c2 := e.plain(newReq("GET", "o.test", "/q", "", nil))
	vAssert(c2.answered && c2.status == 200, "c08.status-not-relayed")
	contacted := len(e.o.seen) > after
	if forbids {
		vReach("forbidden")
		vAssert(contacted, "c04.unstorable-response-reused")
	} else {
		vReach("storable")
		// the stored lifetime is the one the retried 200 announced, not the 416's
		if ccs[ci] == "max-age=60" {
			m, _, err := e.p.cache.GetMetadata(cache.MakeFromRequest(newReq("GET", "o.test", "/q", "", nil)))
			if err == nil {
				vAssert(m.Expires.Sub(m.TimeWritten) == 60*time.Second, "c03.stored-lifetime-not-the-announced-one")
			}
		}
	}
}
