package proxy

import (
	"context"
	"reservoir/cache"
	"reservoir/proxy/headers"
	"time"
)

// C05 (sequentialised): a leader and a follower of one coalesced fetch.  The follower's
// continuation runs after an arbitrary cache action in the hand-over window.

func HarnessCoalescedPair() {
	backend := symChoice(2)
	e := newEnv(backend, 1<<30)
	outcome := symChoice(3)
	names := []string{"cacheable", "uncacheable", "origin-error"}
	h := hdr("Cache-Control", "max-age=60", "Etag", "\"a\"")
	switch outcome {
	case 0:
		e.o.script = []originResp{{status: 200, header: h, body: []byte("BODY")}, {status: 200, header: h, body: []byte("BOD2")}}
	case 1:
		nh := hdr("Cache-Control", "no-store")
		e.o.script = []originResp{{status: 200, header: nh, body: []byte("N1")}, {status: 200, header: nh, body: []byte("N2")}, {status: 200, header: nh, body: []byte("N3")}, {status: 200, header: nh, body: []byte("N4")}}
	case 2:
		e.o.script = []originResp{{err: errOriginAbort}}
	}
	vReach(names[outcome])
	reqA := newReq("GET", "o.test", "/c", "", nil)
	reqB := newReq("GET", "o.test", "/c", "", nil)
	key := cache.MakeFromRequest(reqA)
	// pre-state of the key: cold, or (cacheable outcome only) already stored and fresh, or
	// stored and stale (the shared fetch is then a revalidation answered 304 or 200)
	pre := 0
	if outcome == 0 {
		pre = symChoice(3)
	}
	primed := pre == 1
	stale := pre == 2
	if pre != 0 {
		vClockFreeze(true)
		t0 := time.Now()
		c0 := e.plain(newReq("GET", "o.test", "/c", "", nil))
		vAssert(c0.status == 200, "c05.priming-failed")
		e.o.seen = nil
		if primed {
			vReach("fresh-key")
		} else {
			vClockFreeze(false)
			t1 := time.Now()
			vAssume(t1.Sub(t0) > 2*time.Minute && t1.Sub(t0) < time.Hour)
			if symChoice(2) == 1 {
				e.o.script = []originResp{e.o.script[0], {status: 304, header: hdr("Etag", "\"a\"")}, {status: 200, header: h, body: []byte("BOD3")}}
				vReach("stale-key-304")
			} else {
				vReach("stale-key-200")
			}
		}
	}
	vClockFreeze(true)
	now := time.Now()
	// hand-over window action
	window := symChoice(5)
	vSingleflightAfter(func() {
		switch window {
		case 4:
			// the transfer took longer than the answer's lifetime: when the clients pick the
			// stored entry up it is already stale - they are still answered from that one fetch
			vClockFreeze(false)
			t := time.Now()
			vAssume(t.Sub(now) > 2*time.Minute && t.Sub(now) < time.Hour)
			vClockFreeze(true)
			vReach("lifetime-elapsed-in-window")
		case 1:
			e.p.cache.Delete(key)
			vReach("entry-deleted-in-window")
		case 2:
			e.p.cache.Cache(key, &bodyReader{data: []byte("OTHER"), failAt: -1}, now.Add(time.Hour), cachedRequestInfo{ETag: "\"o\"", Header: hdr()})
			vReach("entry-replaced-in-window")
		case 3:
			if e.mem != nil {
				vReach("evicted-in-window")
			}
			e.p.cache.Delete(key)
		}
	})
	// leader (its fetch was shared with B)
	vSingleflightShared(true)
	vSingleflightMode(0)
	ra, errA := e.p.fetch.dedupFetch(reqA, key, headers.ParseHeaderDirective(reqA.Header))
	leaderShared, _ := vSingleflightResult().(fetchResult)
	vSingleflightAfter(func() {})
	// follower
	vSingleflightMode(1)
	rb, errB := e.p.fetch.dedupFetch(reqB, key, headers.ParseHeaderDirective(reqB.Header))
	check := func(who string, r fetchResult, err error) []byte {
		if outcome == 2 {
			vAssert(err != nil, "c05."+who+".origin-error-hidden")
			return nil
		}
		vAssert(err == nil, "c05."+who+".no-answer")
		if err != nil {
			return nil
		}
		data, _, _ := r.getResponse()
		b, rerr := drain(data)
		vAssert(rerr == nil, "c05."+who+".body-unreadable")
		return b
	}
	ba := check("leader", ra, errA)
	bb := check("follower", rb, errB)
	if outcome == 2 {
		return
	}
	isVersion := func(b []byte) bool {
		for _, s := range e.o.script {
			if string(b) == string(s.body) {
				return true
			}
		}
		return string(b) == "OTHER"
	}
	vAssert(isVersion(ba), "c05.leader.partial-or-mixed-body")
	vAssert(isVersion(bb), "c05.follower.partial-or-mixed-body")
	if ra.Type == fetchTypeCached && rb.Type == fetchTypeCached {
		vReach("both-from-store")
		vAssert(ra.Cached.Entry.Data != rb.Cached.Entry.Data, "c05.clients-share-one-data-handle")
		if leaderShared.Type == fetchTypeCached && leaderShared.Cached.Entry != nil {
			vAssert(rb.Cached.Entry.Data != leaderShared.Cached.Entry.Data || leaderShared.Cached.Entry.Data == nil, "c05.follower-uses-the-shared-handle")
		}
	}
	if primed && window == 0 {
		vAssert(len(e.o.seen) == 0, "c05.fresh-entry-refetched")
	}
	if stale && window == 0 {
		vAssert(len(e.o.seen) == 1, "c05.coalesced-revalidation-hit-origin-more-than-once")
		vAssert(string(ba) == string(bb), "c05.coalesced-body-differs")
	}
	if outcome == 0 && window == 4 && pre == 0 {
		vAssert(len(e.o.seen) == 1, "c05.coalesced-fetch-hit-origin-more-than-once")
		vAssert(string(ba) == "BODY" && string(bb) == "BODY", "c05.coalesced-body-differs")
	}
	if outcome == 0 && window == 0 && pre == 0 {
		vAssert(len(e.o.seen) == 1, "c05.coalesced-fetch-hit-origin-more-than-once")
		vAssert(string(ba) == "BODY" && string(bb) == "BODY", "c05.coalesced-body-differs")
	}
	if outcome == 1 {
		vReach("uncacheable-own-fetches")
		vAssert(string(ba) != string(bb), "c05.uncacheable-answer-shared-between-clients")
		vAssert(ra.Type == fetchTypeDirect && rb.Type == fetchTypeDirect && ra.Direct.Response.Body != rb.Direct.Response.Body, "c05.uncacheable-answer-shared-between-clients")
	}
}

// HarnessLeaderDisconnect: the client whose fetch is in flight disconnects; the other one
// must still receive its answer.
func HarnessLeaderDisconnect() {
	e := newEnv(symChoice(2), 1<<30)
	h := hdr("Cache-Control", "max-age=60")
	e.o.script = []originResp{{status: 200, header: h, body: []byte("BODY")}}
	reqA := newReq("GET", "o.test", "/d", "", nil)
	if symChoice(2) == 0 {
		// the client is gone before the origin has answered
		reqA = reqA.WithContext(vCancelledCtx())
		vReach("disconnect-before-headers")
	} else {
		// the client hangs up after the 200 and its headers arrived, while the body is being
		// transferred (and stored): the transfer breaks with the context's error
		ctx, cancel := context.WithCancel(context.Background())
		reqA = reqA.WithContext(ctx)
		e.o.script = []originResp{{status: 200, header: h, body: []byte("BODY"), abort: &abortSpec{at: symRange(0, 3), err: context.Canceled, hook: cancel}},
			{status: 200, header: h, body: []byte("BODY")}}
		vReach("disconnect-mid-body")
	}
	reqB := newReq("GET", "o.test", "/d", "", nil)
	key := cache.MakeFromRequest(reqB)
	vClockFreeze(true)
	vSingleflightShared(true)
	vSingleflightMode(0)
	_, errA := e.p.fetch.dedupFetch(reqA, key, headers.ParseHeaderDirective(reqA.Header))
	vAssert(errA != nil, "c05.cancelled-request-succeeded") // the disconnected client itself may fail
	vSingleflightMode(1)
	rb, errB := e.p.fetch.dedupFetch(reqB, key, headers.ParseHeaderDirective(reqB.Header))
	vReach("leader-cancelled")
	vAssert(errB == nil, "c05.leader-disconnect-fails-the-other-client")
	if errB == nil {
		data, _, _ := rb.getResponse()
		b, _ := drain(data)
		vAssert(string(b) == "BODY", "c05.leader-disconnect-fails-the-other-client")
	}
}

// HarnessRaceCoalesced (C15): two clients of one coalesced fetch are two goroutines; all that
// orders them is singleflight (the fetch function's completion happens before both Do calls
// return).  What each of them does with the SHARED result afterwards must not conflict: no
// unsynchronised write to the entry both were handed.
func HarnessRaceCoalesced() {
	e := newEnv(symChoice(2), 1<<30)
	h := hdr("Cache-Control", "max-age=60", "Etag", "\"a\"")
	e.o.script = []originResp{{status: 200, header: h, body: []byte("BODY")}}
	reqA := newReq("GET", "o.test", "/c", "", nil)
	reqB := newReq("GET", "o.test", "/c", "", nil)
	key := cache.MakeFromRequest(reqA)
	hdA := headers.ParseHeaderDirective(reqA.Header)
	hdB := headers.ParseHeaderDirective(reqB.Header)
	if symChoice(2) == 1 {
		vClockFreeze(true)
		e.plain(newReq("GET", "o.test", "/c", "", nil)) // the key is already stored and fresh: both hit
		vReach("fresh-key")
	}
	vClockFreeze(true)
	var rb fetchResult
	var errB error
	vRaceBegin()
	go func() {
		rb, errB = e.p.fetch.dedupFetch(reqB, key, hdB) // joins while the leader's fetch is in flight
		if errB == nil {
			data, _, _ := rb.getResponse()
			drain(data)
			data.Close()
		}
	}()
	vSingleflightShared(true)
	vSingleflightMode(0)
	ra, errA := e.p.fetch.dedupFetch(reqA, key, hdA)
	if errA == nil {
		data, _, _ := ra.getResponse()
		drain(data)
		data.Close()
	}
	vSingleflightMode(1)
	vRunPending()
	vRaceEnd()
	vReach("both-done")
	vAssert(errA == nil && errB == nil, "c05.follower.no-answer")
}

// HarnessWaiterDisconnect: "a client that disconnects never changes what the others receive"
// for a client that is only WAITING for somebody else's fetch.  A owns the fetch; while it is
// in flight B joins and hangs up; then C arrives, still during A's fetch.  C is answered from
// that one fetch (one origin contact), completely.
func HarnessWaiterDisconnect() {
	e := newEnv(symChoice(2), 1<<30)
	h := hdr("Cache-Control", "max-age=60")
	e.o.script = []originResp{{status: 200, header: h, body: []byte("BODY")}, {status: 200, header: h, body: []byte("BOD2")}}
	reqA := newReq("GET", "o.test", "/w", "", nil)
	reqB := newReq("GET", "o.test", "/w", "", nil).WithContext(vCancelledCtx())
	reqC := newReq("GET", "o.test", "/w", "", nil)
	key := cache.MakeFromRequest(reqA)
	vClockFreeze(true)
	var rc fetchResult
	var errC error
	cDone := false
	// A's request has reached the origin (nothing is stored yet): B joins A's flight and hangs
	// up; whatever that sets off runs; then C arrives, still during A's flight
	e.o.onFetch = func(n int) {
		if n != 0 {
			return
		}
		vSingleflightMode(1)
		go func() { e.p.fetch.dedupFetch(reqB, key, headers.ParseHeaderDirective(reqB.Header)) }()
		vRunPending()
		go func() {
			rc, errC = e.p.fetch.dedupFetch(reqC, key, headers.ParseHeaderDirective(reqC.Header))
			cDone = true
		}()
		vRunPending()
		vReach("waiter-gone-then-newcomer")
	}
	vSingleflightShared(true)
	vSingleflightMode(0)
	ra, errA := e.p.fetch.dedupFetch(reqA, key, headers.ParseHeaderDirective(reqA.Header))
	vRunPending() // the waiters pick up the result of the flight
	vAssert(cDone, "c05.newcomer-never-answered")
	vAssert(errA == nil && errC == nil, "c05.waiter-disconnect-fails-another-client")
	if errA != nil || errC != nil {
		return
	}
	da, _, _ := ra.getResponse()
	ba, _ := drain(da)
	dc, _, _ := rc.getResponse()
	bc, _ := drain(dc)
	vAssert(string(ba) == "BODY" && string(bc) == "BODY", "c05.coalesced-body-differs")
	vAssert(len(e.o.seen) == 1, "c05.coalesced-fetch-hit-origin-more-than-once")
}
