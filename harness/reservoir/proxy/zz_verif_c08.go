package proxy

import (
	"net/url"
	"net/http"
)

// C08: relayed traffic is faithful in both directions.

var endToEnd = []string{"Set-Cookie", "Link", "Vary", "X-A", "Content-Type"}
var hopByHop = []string{"Connection", "Keep-Alive", "Te", "Trailer", "Transfer-Encoding", "Upgrade", "Proxy-Authenticate", "Proxy-Authorization", "Proxy-Connection"}

// symHeaders: a header set over the name universe; multiplicity and values symbolic.
func symHeaders(maxNames int) (h http.Header, nominated string) {
	h = http.Header{}
	n := 0
	for _, name := range endToEnd {
		if n >= maxNames {
			break
		}
		switch symChoice(3) {
		case 1:
			h[name] = []string{"a" + symStringN(1)}
			n++
		case 2:
			h[name] = []string{"a" + symStringN(1), "b" + symStringN(1)}
			n++
		}
	}
	// hop-by-hop part: optionally one listed hop header, optionally a Connection header naming X-B
	if symChoice(2) == 1 {
		h[hopByHop[1+symChoice(len(hopByHop)-1)]] = []string{"h"}
	}
	switch symChoice(3) {
	case 1:
		nominated = "X-B"
		h["Connection"] = []string{"keep-alive, x-b"}
		h["X-B"] = []string{"secret"}
	case 2:
		// the same list spread over two Connection field lines (RFC 9110 section 5.3: equivalent)
		nominated = "X-B"
		h["Connection"] = []string{"keep-alive", "x-b"}
		h["X-B"] = []string{"secret"}
	}
	return
}

func sameValues(a, b []string) bool {
	if len(a) != len(b) {
		return false
	}
	for i := range a {
		if a[i] != b[i] {
			return false
		}
	}
	return true
}

func checkRelayed(sent, got http.Header, nominated, where string) {
	for _, name := range endToEnd {
		vAssert(sameValues(sent[name], got[name]), "c08."+where+".end-to-end-header-values-changed")
	}
	for _, name := range hopByHop {
		vAssert(len(got[name]) == 0, "c08."+where+".hop-by-hop-header-forwarded")
	}
	if nominated != "" {
		vAssert(len(got[nominated]) == 0, "c08."+where+".connection-nominated-header-forwarded")
	}
}

// HarnessRelayResponse: origin response headers/status/body reach the client unchanged, on
// both transports, relayed (uncacheable) and from the store.
func HarnessRelayResponse() {
	e := newEnv(symChoice(2), 1<<30)
	oh, nominated := symHeaders(vParam("names", 2))
	cacheable := symChoice(2) == 1
	if cacheable {
		oh["Cache-Control"] = []string{"max-age=60"}
	} else {
		oh["Cache-Control"] = []string{"no-store"}
	}
	status := 200
	if !cacheable && symChoice(2) == 1 {
		status = 404
	}
	body := symBytes(symRange(0, 2))
	e.o.script = []originResp{{status: status, header: oh, body: body}}
	vClockFreeze(true)
	viaTunnel := symChoice(2) == 1
	var c capture
	req := newReq("GET", "o.test", "/h", "", nil)
	if viaTunnel {
		c = e.tunnelOne(req)
	} else {
		c = e.plain(req)
	}
	if cacheable && len(body) == 0 {
		return // a storable empty body is C09's subject (HarnessCacheTrouble)
	}
	vReach("relayed")
	vAssert(c.answered && c.status == status, "c08.response.status-changed")
	if !(cacheable && len(body) == 0) {
		vAssert(string(c.body) == string(body), "c08.response.body-changed")
	}
	where := "response.relayed"
	if cacheable {
		where = "response.stored"
	}
	checkRelayed(oh, c.header, nominated, where)
	if cacheable && len(body) > 0 {
		// second request: served from the store with the headers stored with that body
		var c2 capture
		if viaTunnel {
			c2 = e.tunnelOne(newReq("GET", "o.test", "/h", "", nil))
		} else {
			c2 = e.plain(newReq("GET", "o.test", "/h", "", nil))
		}
		vReach("from-store")
		vAssert(len(e.o.seen) == 1, "c04.storable-response-not-reused")
		vAssert(c2.status == 200 && string(c2.body) == string(body), "c01.reused-body-differs")
		checkRelayed(oh, c2.header, nominated, "response.hit")
	}
}

// HarnessRelayRequest: the origin receives the client's method, path, query, end-to-end
// headers and body unchanged; hop-by-hop headers are not forwarded.
func HarnessRelayRequest() {
	e := newEnv(backendMem, 1<<30)
	ch, nominated := symHeaders(vParam("names", 2))
	methods := []string{"GET", "POST", "PUT", "DELETE", "HEAD"}
	method := methods[symChoice(len(methods))]
	path := "/p" + symStringN(1)
	query := symString(1)
	e.o.script = []originResp{{status: 200, header: hdr("Cache-Control", "no-store"), body: []byte("ok")}}
	req := newReq(method, "o.test", path, query, ch.Clone())
	rb := &bodyReader{data: []byte("payload"), failAt: -1}
	req.Body = rb
	vClockFreeze(true)
	e.plain(req)
	vAssert(len(e.o.seen) >= 1, "c04.request-did-not-reach-origin")
	if len(e.o.seen) == 0 {
		return
	}
	s := e.o.seen[0]
	vReach("forwarded")
	vAssert(s.method == method, "c08.request.method-changed")
	vAssert(s.path == path && s.query == query, "c08.request.path-or-query-changed")
	vAssert(s.host == "o.test", "c08.request.host-changed")
	vAssert(s.body == rb, "c08.request.body-not-passed-through")
	checkRelayed(ch, s.header, nominated, "request")
}

// HarnessRelayTarget: the request target exactly as it is on the wire.  The client's
// request line is parsed the way net/http parses it (url.ParseRequestURI: decoded Path plus
// RawPath when the encoding is not the default one); what the origin receives must be the same
// target, octet for octet - percent-encoded reserved characters (%2F, %3F, %23, %25) are not
// interchangeable with their decoded forms.
func HarnessRelayTarget() {
	e := newEnv(symChoice(2), 1<<30)
	targets := []string{"/plain", "/dir%2Ffile", "/a%3Fb?x=1", "/a%23b", "/100%25", "/sp%20ace", "/%41bc", "/dir/file?x=%2F", "/a;b=c", "/caf%C3%A9",
		"/up/sub/../file?q=1", "/a/./b", "/x/..", "/a//b"} // dot segments and empty segments are the client's to send
	target := targets[symChoice(len(targets))]
	u, err := url.ParseRequestURI(target)
	vAssert(err == nil, "c08.harness-target-does-not-parse")
	e.o.script = []originResp{{status: 200, header: hdr("Cache-Control", "no-store"), body: []byte("ok")}}
	req := &http.Request{Method: "GET", Host: "o.test", URL: u, Header: http.Header{}, Proto: "HTTP/1.1", ProtoMajor: 1, ProtoMinor: 1, Body: http.NoBody, RequestURI: target}
	vClockFreeze(true)
	var c capture
	if symChoice(2) == 1 {
		c = e.tunnelOne(req)
	} else {
		c = e.plain(req)
	}
	vAssert(c.answered && c.status == 200, "c08.status-not-relayed")
	vAssert(len(e.o.seen) >= 1, "c04.request-did-not-reach-origin")
	if len(e.o.seen) == 0 {
		return
	}
	vReach("forwarded")
	vAssert(e.o.seen[0].uri == target, "c08.request.target-changed-on-the-way-to-the-origin")
}

// HarnessRelayVia: Via is an end-to-end, multi-valued field that the proxy itself adds to: all
// Via lines of the origin reach the client in order, on both transports, relayed, freshly
// stored and on a later hit; the proxy's own hop comes after them.
func HarnessRelayVia() {
	e := newEnv(symChoice(2), 1<<30)
	vias := [][]string{nil, {"1.1 edge-a"}, {"1.1 edge-a", "1.0 edge-b"}, {"1.1 edge-a, 1.1 mid", "1.0 edge-b", "1.1 edge-c"}}
	sent := vias[symChoice(len(vias))]
	oh := hdr("Cache-Control", "max-age=60")
	if symChoice(2) == 1 {
		oh = hdr("Cache-Control", "no-store")
	}
	if sent != nil {
		oh["Via"] = sent
	}
	e.o.script = []originResp{{status: 200, header: oh, body: []byte("ok")}}
	vClockFreeze(true)
	viaTunnel := symChoice(2) == 1
	get := func() capture {
		req := newReq("GET", "o.test", "/via", "", nil)
		if viaTunnel {
			return e.tunnelOne(req)
		}
		return e.plain(req)
	}
	check := func(c capture, where string) {
		got := c.header["Via"]
		vAssert(len(got) >= len(sent), "c08."+where+".end-to-end-header-values-changed")
		for i := 0; i < len(sent) && i < len(got); i++ {
			vAssert(got[i] == sent[i], "c08."+where+".end-to-end-header-values-changed")
		}
		vAssert(len(got) <= len(sent)+1, "c08."+where+".via-lines-invented")
	}
	c1 := get()
	vAssert(c1.answered && c1.status == 200, "c08.status-not-relayed")
	check(c1, "response.relayed")
	c2 := get()
	vReach("second")
	check(c2, "response.hit")
}
