package proxy

import (
	"net/http"
	"reservoir/cache"
	"time"
)

// C06: revalidation uses the stored validators; 304 / 200 / other update the entry correctly.
func HarnessRevalidation() {
	backend := symChoice(2)
	e := newEnv(backend, 1<<30)
	dflt := 20 * time.Second
	e.setDefaultMaxAge(dflt)
	// validators stored with v1
	h1 := hdr("Cache-Control", "max-age=5")
	etag := ""
	if symChoice(2) == 1 {
		etag = "\"" + symStringN(1) + "\""
		h1["Etag"] = []string{etag}
	}
	lmForm := symChoice(4)
	hasLM := lmForm != 0
	var lm time.Time
	switch lmForm {
	case 1:
		lm = symTime()
		h1["Last-Modified"] = []string{vTimeString(lm)} // the usual IMF-fixdate form, any instant
	case 2:
		// the two obsolete forms every HTTP recipient must accept (RFC 9110 section 5.6.7)
		lm = vTimeOf(1577836800 * 1000000000) // 2020-01-01T00:00:00Z
		h1["Last-Modified"] = []string{"Wednesday, 01-Jan-20 00:00:00 GMT"}
		vReach("last-modified-rfc850")
	case 3:
		lm = vTimeOf(1577836800 * 1000000000) // 2020-01-01T00:00:00Z
		h1["Last-Modified"] = []string{"Wed Jan  1 00:00:00 2020"}
		vReach("last-modified-asctime")
	}
	// origin: v1, then the answer to the revalidation
	second := symChoice(3)
	h2 := hdr("Cache-Control", "max-age=5", "Etag", "\"B\"")
	switch second {
	case 0:
		// the 304 may carry freshness headers of its own; the renewal is by the configured default
		h304 := hdr()
		switch symChoice(5) {
		case 1:
			h304["Cache-Control"] = []string{"max-age=1"}
		case 2:
			h304["Cache-Control"] = []string{"max-age=86400"}
		case 3:
			h304["Content-Length"] = []string{"0"} // describes the 304 message itself, not the stored body
			h304["Content-Type"] = []string{"text/x-304"}
		case 4:
			h304["Content-Encoding"] = []string{"gzip"}
		}
		e.o.script = []originResp{{status: 200, header: h1, body: []byte("v1")}, {status: 304, header: h304}, {status: 304, header: hdr()}}
	case 1:
		e.o.script = []originResp{{status: 200, header: h1, body: []byte("v1")}, {status: 200, header: h2, body: []byte("v2!")}}
	default:
		e.o.script = []originResp{{status: 200, header: h1, body: []byte("v1")}, {status: 500, header: hdr("X-A", "e"), body: []byte("err")}}
	}
	req1 := newReq("GET", "o.test", "/v", "", nil)
	key := cache.MakeFromRequest(req1)
	c1 := e.plain(req1)
	vAssert(c1.status == 200 && string(c1.body) == "v1", "c06.first-response-wrong")
	m, _, err := e.p.cache.GetMetadata(key)
	vAssert(err == nil, "c04.storable-response-not-stored")
	if err != nil {
		return
	}
	// lifetime elapses
	t1 := time.Now()
	vAssume(t1.After(m.Expires))
	// the client's own conditionals (must never be forwarded in place of the stored ones)
	ch := http.Header{}
	if symChoice(2) == 1 {
		ch["If-None-Match"] = []string{"\"client\""}
	}
	// a client may also name the validators' header fields in its Connection header (as
	// hop-by-hop): its own copies go, the proxy's stored validators are still sent
	if symChoice(2) == 1 {
		ch["Connection"] = []string{"If-None-Match, If-Modified-Since"}
		vReach("validators-nominated-hop-by-hop")
	}
	clientIMS := ""
	switch symChoice(3) {
	case 1:
		ch["If-Modified-Since"] = []string{vTimeString(symTime())}
	case 2:
		clientIMS = "Sunday, 01-Jan-34 00:00:00 GMT" // an obsolete but valid date form
		ch["If-Modified-Since"] = []string{clientIMS}
	}
	if symChoice(2) == 1 {
		ch["If-Match"] = []string{"\"client\""}
	}
	if symChoice(2) == 1 {
		ch["If-Unmodified-Since"] = []string{vTimeString(symTime())}
	}
	vClockFreeze(true)
	c2 := e.plain(newReq("GET", "o.test", "/v", "", ch))
	vClockFreeze(false)
	vAssert(len(e.o.seen) >= 2, "c03.stale-entry-served-without-origin-contact")
	if len(e.o.seen) < 2 {
		return
	}
	up := e.o.seen[1].header
	vReach("revalidation-sent")
	// 1. stored validators, never the client's
	if etag != "" {
		vAssert(one(up, "If-None-Match") == etag, "c06.stored-etag-not-sent")
	} else {
		vAssert(len(up["If-None-Match"]) == 0, "c06.client-if-none-match-forwarded")
	}
	if hasLM {
		got, perr := http.ParseTime(one(up, "If-Modified-Since"))
		vAssert(perr == nil && got.Equal(lm), "c06.stored-last-modified-not-sent")
	} else if len(up["If-Modified-Since"]) > 0 {
		vNote("C06: with no Last-Modified from the origin, the store time is sent as If-Modified-Since (not judged)")
		// ... but never the client's own date
		if clientIMS != "" {
			sentT, perr := http.ParseTime(one(up, "If-Modified-Since"))
			vAssert(perr != nil || !sentT.Equal(vTimeOf(2019686400*1000000000)), "c06.client-conditional-forwarded") // 2034-01-01T00:00:00Z
		}
	}
	vAssert(len(up["If-Match"]) == 0 && len(up["If-Unmodified-Since"]) == 0, "c06.client-conditional-forwarded")
	// any further upstream request of this exchange (e.g. the direct fetch after an
	// unstorable answer) is the client's own request: it carries neither the client's
	// stripped conditionals nor the stored validators
	for i := 2; i < len(e.o.seen); i++ {
		x := e.o.seen[i].header
		vReach("follow-up-fetch")
		// (a date the client sent in an obsolete form is not among the conditionals the proxy
		// takes out of the request; on the client's own fetch it is the client's to send)
		ownIMS := clientIMS != "" && len(x["If-Modified-Since"]) == 1 && x["If-Modified-Since"][0] == clientIMS
		vAssert(len(x["If-None-Match"]) == 0 && (len(x["If-Modified-Since"]) == 0 || ownIMS) && len(x["If-Match"]) == 0 && len(x["If-Unmodified-Since"]) == 0,
			"c06.conditional-header-on-the-clients-own-fetch")
	}
	m2, _, err2 := e.p.cache.GetMetadata(key)
	switch second {
	case 0:
		vReach("304")
		vAssert(c2.status == 200 && string(c2.body) == "v1", "c06.304-does-not-serve-stored-body")
		// ... with the stored response's own description of that body
		if cl, okL := vNumIn(one(c2.header, "Content-Length"), ""); okL {
			vAssert(cl == 2, "c06.304-changes-the-stored-bodys-headers")
		}
		vAssert(len(c2.header["Content-Encoding"]) == 0 && one(c2.header, "Content-Type") != "text/x-304", "c06.304-changes-the-stored-bodys-headers")
		vAssert(one(c2.header, "X-Cache") == "REVALIDATED", "c06.304-not-labelled-revalidated")
		vAssert(err2 == nil && m2.Expires.Equal(t1.Add(dflt)), "c06.revalidation-does-not-renew-by-default")
		// the renewed lifetime elapses as well: the entry is revalidated a second time, still with
		// the validators saved from the stored response (a 304 names no new representation; it
		// may omit the entity tag, and what it omits must not be forgotten)
		if err2 == nil && vParam("secondreval", 0) == 1 {
			seenBefore := len(e.o.seen)
			t2 := time.Now()
			vAssume(t2.After(m2.Expires))
			c3 := e.plain(newReq("GET", "o.test", "/v", "", nil))
			vAssert(len(e.o.seen) > seenBefore, "c03.stale-entry-served-without-origin-contact")
			if len(e.o.seen) > seenBefore {
				vReach("second-revalidation")
				up2 := e.o.seen[seenBefore].header
				if etag != "" {
					vAssert(one(up2, "If-None-Match") == etag, "c06.second-revalidation.stored-etag-not-sent")
				} else {
					vAssert(len(up2["If-None-Match"]) == 0, "c06.second-revalidation.etag-invented")
				}
				if hasLM {
					got2, perr2 := http.ParseTime(one(up2, "If-Modified-Since"))
					vAssert(perr2 == nil && got2.Equal(lm), "c06.second-revalidation.stored-last-modified-not-sent")
				}
				vAssert(c3.status == 200 && string(c3.body) == "v1", "c06.304-does-not-serve-stored-body")
			}
		}
	case 1:
		vReach("200-replaces")
		vAssert(c2.status == 200 && string(c2.body) == "v2!", "c06.200-does-not-serve-new-body")
		vAssert(err2 == nil && m2.Object.ETag == "\"B\"" && m2.Size == 3, "c06.200-does-not-replace-entry")
		c3 := e.plain(newReq("GET", "o.test", "/v", "", nil))
		vAssert(string(c3.body) != "v1", "c06.old-body-served-after-replacement")
	default:
		vReach("other-status")
		vAssert(c2.status == 500 && string(c2.body) == "err" && one(c2.header, "X-A") == "e", "c06.other-answer-not-relayed")
		vAssert(err2 == nil && m2.Object.ETag == etag && m2.Size == 2, "c06.other-answer-changed-the-entry")
	}
}
