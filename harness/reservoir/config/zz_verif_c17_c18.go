package config

import (
	"reflect"
	"reservoir/utils/bytesize"
	"reservoir/utils/duration"
	"time"
)

// ---------------- C17: overrides win but are never written ----------------

// HarnessOverrides: ConfigProp[int64] with base v, optional CLI override o, then a symbolic
// sequence of API updates (Stage+CommitStaged) and reads.
func HarnessOverrides() {
	v := symInt64()
	p := NewConfigProp(v)
	base := v
	hasOverride := symBool()
	o := symInt64()
	if hasOverride {
		p.Overwrite(o)
	}
	steps := vParam("steps", 3)
	for i := 0; i < steps; i++ {
		if symChoice(2) == 0 {
			x := symInt64()
			p.Stage(x)
			p.CommitStaged()
			base = x
			vReach("updated")
		}
		got := p.Read()
		if hasOverride {
			vReach("overridden-read")
			vAssert(got == o, "c17.override-lost-after-update")
		} else {
			vAssert(got == base, "c17.read-not-last-committed")
		}
		_, err := p.MarshalJSON()
		vAssert(err == nil, "c17.marshal-failed")
		written, ok := vLastMarshalled().(int64)
		vAssert(ok && written == base, "c17.override-written-to-file")
	}
	vDropPending()
}

// ---------------- C18 ----------------

type subLog struct {
	calls int
}

// propUniverse: the settings an update document may address in this harness.
const (
	uMaxCacheSize = iota
	uCleanupInterval
	uLockShards
	uMemoryBudget
	uDefaultMaxAge
	uListen
	uCount
)

func stageProp(cfg *Config, which int) stagedProp {
	switch which {
	case uMaxCacheSize:
		cfg.Cache.MaxCacheSize.Stage(bytesize.ByteSize(symInt64()))
		return &cfg.Cache.MaxCacheSize
	case uCleanupInterval:
		cfg.Cache.CleanupInterval.Stage(duration.Duration(symInt64()))
		return &cfg.Cache.CleanupInterval
	case uLockShards:
		cfg.Cache.LockShards.Stage(symInt())
		return &cfg.Cache.LockShards
	case uMemoryBudget:
		cfg.Cache.Memory.MemoryBudgetPercent.Stage(symInt())
		return &cfg.Cache.Memory.MemoryBudgetPercent
	case uDefaultMaxAge:
		cfg.Proxy.CachePolicy.DefaultMaxAge.Stage(duration.Duration(symInt64()))
		return &cfg.Proxy.CachePolicy.DefaultMaxAge
	default:
		if symBool() {
			cfg.Proxy.Listen.Stage("")
		} else {
			cfg.Proxy.Listen.Stage(":1")
		}
		return &cfg.Proxy.Listen
	}
}

type cfgSnapshot struct {
	max      bytesize.ByteSize
	interval duration.Duration
	shards   int
	budget   int
	maxAge   duration.Duration
	listen   string
}

func snap(cfg *Config) cfgSnapshot {
	return cfgSnapshot{cfg.Cache.MaxCacheSize.Read(), cfg.Cache.CleanupInterval.Read(), cfg.Cache.LockShards.Read(),
		cfg.Cache.Memory.MemoryBudgetPercent.Read(), cfg.Proxy.CachePolicy.DefaultMaxAge.Read(), cfg.Proxy.Listen.Read()}
}

// HarnessUpdateAtomic: UpdatePartialFromConfig with the reflect/JSON dispatch replaced by a
// function that does what it documents for a symbolic update document of <= keys settings:
// stage each addressed property with a symbolic value, or fail with "ill-typed value" after
// some keys were already staged.  A rejected or failed update must change nothing.
func HarnessUpdateAtomic() {
	cfg := NewDefault()
	vFSPutFile("var/config.json", "old!")
	// listeners on every addressed setting
	notified := 0
	cfg.Cache.MaxCacheSize.OnChange(func(bytesize.ByteSize) { notified++ })
	cfg.Cache.CleanupInterval.OnChange(func(duration.Duration) { notified++ })
	cfg.Cache.LockShards.OnChange(func(int) { notified++ })
	cfg.Cache.Memory.MemoryBudgetPercent.OnChange(func(int) { notified++ })
	cfg.Proxy.CachePolicy.DefaultMaxAge.OnChange(func(duration.Duration) { notified++ })
	cfg.Proxy.Listen.OnChange(func(string) { notified++ })
	before := snap(cfg)
	keys := vParam("keys", 2)
	illTyped := false
	vOverride("reservoir/config.checkIsSetRecursive", func(reflect.Value) error { return nil })
	vOverride("reservoir/config.setPropsFromMapRecursive", func(val reflect.Value, updates map[string]any) ([]stagedProp, error) {
		var staged []stagedProp
		n := symRange(1, keys)
		for i := 0; i < n; i++ {
			if symChoice(4) == 0 {
				vReach("ill-typed-later-key")
				illTyped = true
				return nil, ErrUpdateFailed // an ill-typed value, possibly after earlier keys were staged
			}
			staged = append(staged, stageProp(cfg, symChoice(uCount)))
		}
		return staged, nil
	})
	vFSFaults(vParam("faults", 1))
	var atEncode cfgSnapshot
	vOnEncode(func() { atEncode = snap(cfg) })
	status, err := UpdatePartialFromConfig(cfg, map[string]any{"x": 1})
	vRunPending()
	after := snap(cfg)
	file := vFSContent("var/config.json")
	if err != nil || status == UpdateStatusFailed {
		vReach("rejected")
		// the cause of the rejection is part of the assertion id, so that a known finding
		// names one failing history and any other one is still reported
		switch {
		case illTyped:
			vAssert(after == before, "c18.rejected.ill-typed-key.settings-changed")
			vAssert(notified == 0, "c18.rejected.ill-typed-key.listeners-notified")
			vAssert(file == "old!", "c18.rejected.ill-typed-key.file-changed")
		case vFSFaulted():
			vReach("persist-failed")
			vAssert(after == before, "c18.rejected.persist-failure.settings-changed")
			vAssert(notified == 0, "c18.rejected.persist-failure.listeners-notified")
			vAssert(file == "old!", "c18.rejected.persist-failure.file-changed")
		default:
			vReach("verify-refused")
			vAssert(after == before, "c18.rejected.verify-refusal.settings-changed")
			vAssert(notified == 0, "c18.rejected.verify-refusal.listeners-notified")
			vAssert(file == "old!", "c18.rejected.verify-refusal.file-changed")
		}
	} else {
		vReach("accepted")
		vAssert(atEncode == after, "c18.accepted-update-not-what-was-persisted")
		vAssert(file != "old!" && len(file) == 4, "c18.accepted-update-not-persisted")
		vAssert(notified >= 1, "c18.accepted-update-listeners-not-notified")
	}
}

// HarnessVerifyWorkable: every configuration that verify() accepts can be run: the
// consumers of the values do not panic (shard index modulus, make sizes, ticker intervals).
func HarnessVerifyWorkable() {
	cfg := NewDefault()
	vOverride("reservoir/config.checkIsSetRecursive", func(reflect.Value) error { return nil })
	cfg.Cache.MaxCacheSize.Overwrite(bytesize.ByteSize(symInt64()))
	cfg.Cache.CleanupInterval.Overwrite(duration.Duration(symInt64()))
	cfg.Cache.LockShards.Overwrite(symInt())
	cfg.Cache.Memory.MemoryBudgetPercent.Overwrite(symInt())
	cfg.Proxy.CachePolicy.DefaultMaxAge.Overwrite(duration.Duration(symInt64()))
	vDropPending()
	if cfg.verify() != nil {
		vReach("refused")
		return
	}
	vReach("accepted")
	shards := cfg.Cache.LockShards.Read()
	// consumers (cache/helpers.go getLock: key % len(locks); NewMemoryCache: make([]RWMutex, n))
	vAssert(shards >= 1, "c18.accepted-shard-count-unusable")
	vNoPanic(func() { time.NewTicker(cfg.Cache.CleanupInterval.Read().Cast()) }, "c18.accepted-interval-kills-janitor")
	vAssert(cfg.Cache.MaxCacheSize.Read().Bytes() > 0, "c18.accepted-nonpositive-cache-size")
	b := cfg.Cache.Memory.MemoryBudgetPercent.Read()
	vAssert(b >= 0 && b <= 100, "c18.accepted-memory-budget-out-of-range")
	if cfg.Proxy.CachePolicy.DefaultMaxAge.Read().Cast() <= 0 {
		vNote("C18: a non-positive default_max_age is accepted (entries expire at once; the proxy still runs) - not judged")
	}
}

// HarnessUpdateSequence: two update documents one after the other (the first possibly
// rejected half-way).  After an ACCEPTED second document every setting it addressed reads the
// value that document submitted and every other setting is as it was before that document.
func HarnessUpdateSequence() {
	cfg := NewDefault()
	vFSPutFile("var/config.json", "old!")
	vOverride("reservoir/config.checkIsSetRecursive", func(reflect.Value) error { return nil })
	type sub struct {
		which int
		size  bytesize.ByteSize
		shard int
	}
	var doc []sub
	vOverride("reservoir/config.setPropsFromMapRecursive", func(val reflect.Value, updates map[string]any) ([]stagedProp, error) {
		var staged []stagedProp
		for i, d := range doc {
			if d.which < 0 {
				_ = i
				return nil, ErrUpdateFailed // ill-typed value: earlier keys of this document were staged
			}
			switch d.which {
			case uMaxCacheSize:
				cfg.Cache.MaxCacheSize.Stage(d.size)
				staged = append(staged, &cfg.Cache.MaxCacheSize)
			case uLockShards:
				cfg.Cache.LockShards.Stage(d.shard)
				staged = append(staged, &cfg.Cache.LockShards)
			}
		}
		return staged, nil
	})
	// document 1: max_cache_size := s1, then (maybe) an ill-typed key
	s1 := bytesize.ByteSize(symInt64())
	vAssume(s1 > 0)
	doc = []sub{{which: uMaxCacheSize, size: s1}}
	if symChoice(2) == 1 {
		doc = append(doc, sub{which: -1})
		vReach("first-document-rejected")
	}
	UpdatePartialFromConfig(cfg, map[string]any{"x": 1})
	vRunPending()
	before := snap(cfg)
	// document 2: max_cache_size := s2 (possibly the value it already has), shards := n
	s2 := bytesize.ByteSize(symInt64())
	vAssume(s2 > 0)
	if symChoice(2) == 1 {
		s2 = before.max // re-submitting the current value
		vReach("resubmits-current-value")
	}
	n := symInt()
	vAssume(n >= 1)
	doc = []sub{{which: uMaxCacheSize, size: s2}, {which: uLockShards, shard: n}}
	status, err := UpdatePartialFromConfig(cfg, map[string]any{"x": 1})
	vRunPending()
	if err != nil || status == UpdateStatusFailed {
		return
	}
	after := snap(cfg)
	vReach("second-document-accepted")
	vAssert(after.max == s2 && after.shards == n, "c18.accepted-update-does-not-set-the-submitted-values")
	vAssert(after.interval == before.interval && after.budget == before.budget && after.maxAge == before.maxAge && after.listen == before.listen,
		"c18.accepted-update-changed-settings-it-did-not-address")
}

// HarnessIncompleteConfigRefused (C18, the loaded-from-file side): a configuration in which
// exactly one property was never set (the key is missing from the file) is refused by verify()
// - whichever of the properties it is.  The REAL checkIsSetRecursive runs here (a small model
// of package reflect interprets its walk over the struct); nothing is overridden.
func HarnessIncompleteConfigRefused() {
	cfg := NewDefault()
	unset := []func(){
		func() { cfg.Proxy.Listen = ConfigProp[string]{} },
		func() { cfg.Proxy.CaCert = ConfigProp[string]{} },
		func() { cfg.Proxy.UpstreamDefaultHttps = ConfigProp[bool]{} },
		func() { cfg.Proxy.RetryOnRange416 = ConfigProp[bool]{} },
		func() { cfg.Proxy.CachePolicy.IgnoreCacheControl = ConfigProp[bool]{} },
		func() { cfg.Proxy.CachePolicy.DefaultMaxAge = ConfigProp[duration.Duration]{} },
		func() { cfg.Webserver.Listen = ConfigProp[string]{} },
		func() { cfg.Webserver.DashboardDisabled = ConfigProp[bool]{} },
		func() { cfg.Webserver.ApiDisabled = ConfigProp[bool]{} },
		func() { cfg.Cache.MaxCacheSize = ConfigProp[bytesize.ByteSize]{} },
		func() { cfg.Cache.Type = ConfigProp[CacheType]{} },
		func() { cfg.Cache.LockShards = ConfigProp[int]{} },
		func() { cfg.Cache.File.Dir = ConfigProp[string]{} },
		func() { cfg.Cache.Memory.MemoryBudgetPercent = ConfigProp[int]{} },
		func() { cfg.Logging.ToStdout = ConfigProp[bool]{} },
		func() { cfg.Logging.Compress = ConfigProp[bool]{} },
		func() { cfg.Logging.MaxBackups = ConfigProp[int]{} },
	}
	which := symChoice(len(unset) + 1)
	if which == len(unset) {
		vReach("complete")
		vAssert(cfg.verify() == nil, "c18.complete-default-config-refused")
		return
	}
	unset[which]()
	vDropPending()
	vReach("one-key-missing")
	vAssert(cfg.verify() != nil, "c18.incomplete-config-accepted")
}
