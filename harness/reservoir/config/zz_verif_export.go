package config

// VVerify exposes verify() to the harnesses of other packages (analysis overlay only).
func VVerify(c *Config) error { return c.verify() }
