#!/bin/sh
# usage: seedtest.sh <patch.diff> <property> [tier]  — apply a seeded change to /repo, run the check, undo
P=$1; ID=$2; TIER=${3:-quick}
git -C /repo apply "$P" || { echo "patch does not apply"; exit 3; }
cd /verif && ./check $ID --tier $TIER --no-evidence > /tmp/seed_$ID.log 2>&1; RC=$?
git -C /repo checkout -- .
grep -E "^VIOLATION|^KNOWN|^TOOL-ERROR|^MODEL|^OK" /tmp/seed_$ID.log | cut -c1-260 | head -8
echo "exit=$RC"
