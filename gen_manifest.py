#!/usr/bin/env python3
"""Regenerates MANIFEST.json from checks.json (+ meta.json for the per-property texts)."""
import json, os
here = os.path.dirname(os.path.abspath(__file__))
checks = json.load(open(os.path.join(here, 'checks.json')))
meta = json.load(open(os.path.join(here, 'meta.json')))
props = [json.loads(l) for l in open(os.path.join(here, 'properties.jsonl'))]
man = {
  "version": 1,
  "setup_cmd": "cd /verif/engine && PATH=/opt/veriftools/go1.26.8/bin:$PATH GOFLAGS=-mod=mod GOPROXY=off GOSUMDB=off GOTOOLCHAIN=local go build -o /verif/bin/gosym . && cd /verif && ./bin/gosym selftest",
  "hooks": {
    "guard": "verif",
    "enable": "no hooks: harnesses are injected through go/packages overlays (/verif/harness/<import path>/zz_verif_*.go); /repo carries no verif-tagged code",
    "baseline_off_cmd": "cd /repo && PATH=/opt/veriftools/go1.26.8/bin:$PATH GOFLAGS=-mod=mod GOPROXY=off GOSUMDB=off GOTOOLCHAIN=local go test -vet=off -count=1 ./cache/... ./config/... ./proxy/... ./tests/... ./utils/...",
    "source_commits": [],
    "add_only": True
  },
  "engines": [{
    "name": "gosym", "path": "/verif/engine",
    "serves_properties": sorted(checks.keys()),
    "kind_free_text": "bounded symbolic executor for go/ssa (x/tools v0.50.0) written for this task; SMT-LIB2 over z3 5.1.0 (incremental) with one-shot z3/cvc5 fallbacks; native replay of counterexamples through go test -overlay"
  }],
  "checks": [],
  "not_applicable": [],
  "notes": "All checks: ./check <ID> --tier quick|thorough; exit 0 = held within the stated bounds (KNOWN-FINDING lines allowed), 1 = VIOLATION (replayed), 2 = tool error / inconclusive."
}
for p in props:
    pid = p['id']
    if pid in checks and pid in meta and not meta[pid].get('not_applicable'):
        m = meta[pid]
        man['checks'].append({
          "property_id": pid,
          "quick_cmd": f"./check {pid} --tier quick",
          "thorough_cmd": f"./check {pid} --tier thorough",
          "evidence_file": f"/verif/evidence/{pid}.json",
          "replay_cmd_template": "./bin/gosym replay {path}",
          "engine": "gosym",
          "level_claimed": {"category": "model_checking", "text": m['level_text'], "design_ref": f"DESIGN.md §3 {pid}, §8"},
          "level_note": m['level_note'],
          "technique": m.get('technique', "bounded symbolic execution of the real Go SSA; every branch, assertion and panic condition decided by an SMT solver (z3)")
        })
    else:
        reason = meta.get(pid, {}).get('not_applicable', 'check not built yet in this session (engine support pending); no claim is made')
        man['not_applicable'].append({"property_id": pid, "reason": reason})
json.dump(man, open(os.path.join(here, 'MANIFEST.json'), 'w'), indent=1)
print("checks:", [c['property_id'] for c in man['checks']])
print("n/a:", [c['property_id'] for c in man['not_applicable']])
