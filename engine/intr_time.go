package main

// Model of package time: an instant is one int64 of Unix nanoseconds, stored in the `ext`
// field of time.Time (wall = 0, loc = nil); the zero Time is ns = 0.

import (
	"go/types"
	"math"
	"net/http"
	"time"

	"golang.org/x/tools/go/ssa"
)

const clockBase = int64(1_750_000_000) * 1_000_000_000 // 2025-06-15, < 2^61

func isTimeType(t types.Type) bool {
	n, ok := types.Unalias(t).(*types.Named)
	return ok && n.Obj().Pkg() != nil && n.Obj().Pkg().Path() == "time" && n.Obj().Name() == "Time"
}

func timeNs(v Value) *Term { return v.(*StructV).F[1].(*Term) }

func mkTime(ns *Term) Value {
	return &StructV{F: []Value{mkBV(64, 0), ns, PtrV{}}}
}

func (vm *VM) timeBits() int {
	if b, ok := vm.cfg.Params["timebits"]; ok {
		return b
	}
	return 40
}

func (vm *VM) clockNow() *Term {
	if vm.inInit {
		return mkBV(64, uint64(clockBase))
	}
	if f, ok := vm.P.env["clock.frozen"]; ok && vm.P.lastNow != nil && f.(*Term).BoolVal() {
		return vm.P.lastNow
	}
	if vm.cfg.Concrete != nil {
		v := vm.nextConcrete("int")
		t := mkBV(64, uint64(v.Int))
		vm.P.lastNow = t
		return t
	}
	bits := vm.timeBits()
	v := vm.freshVar("now", bvSort(bits))
	ns := mkBVBin("bvadd", mkBV(64, uint64(clockBase)), mkZext(v, 64))
	vm.logNondet(nondetRec{kind: "int", terms: []*Term{ns}, width: 64, label: "time.Now"})
	if vm.P.lastNow != nil {
		vm.solver.Assert(mkBVCmp("bvuge", ns, vm.P.lastNow))
	}
	vm.P.lastNow = ns
	return ns
}

func satSub(a, b *Term) *Term {
	// Go's Time.Sub saturates; within the modelled ranges no overflow occurs, but keep the semantics
	d := mkBVBin("bvsub", a, b)
	// overflow iff signs of a and b differ and sign of d differs from sign of a
	z := mkBV(64, 0)
	an, bn, dn := mkBVCmp("bvslt", a, z), mkBVCmp("bvslt", b, z), mkBVCmp("bvslt", d, z)
	ovf := mkAnd(mkNot(mkEq(an, bn)), mkNot(mkEq(dn, an)))
	return mkIte(ovf, mkIte(an, mkBV(64, 1<<63), mkBV(64, uint64(math.MaxInt64))), d)
}

func addTime(m map[string]Intrinsic) {
	m["time.Now"] = func(vm *VM, fn *ssa.Function, args []Value) Value { return mkTime(vm.clockNow()) }
	m["(time.Time).Before"] = func(vm *VM, fn *ssa.Function, args []Value) Value {
		return mkBVCmp("bvslt", timeNs(args[0]), timeNs(args[1]))
	}
	m["(time.Time).After"] = func(vm *VM, fn *ssa.Function, args []Value) Value {
		return mkBVCmp("bvsgt", timeNs(args[0]), timeNs(args[1]))
	}
	m["(time.Time).Equal"] = func(vm *VM, fn *ssa.Function, args []Value) Value {
		return mkEq(timeNs(args[0]), timeNs(args[1]))
	}
	m["(time.Time).Compare"] = func(vm *VM, fn *ssa.Function, args []Value) Value {
		a, b := timeNs(args[0]), timeNs(args[1])
		return mkIte(mkBVCmp("bvslt", a, b), mkBV(64, ^uint64(0)), mkIte(mkEq(a, b), mkBV(64, 0), mkBV(64, 1)))
	}
	m["(time.Time).IsZero"] = func(vm *VM, fn *ssa.Function, args []Value) Value {
		return mkEq(timeNs(args[0]), mkBV(64, 0))
	}
	m["(time.Time).Add"] = func(vm *VM, fn *ssa.Function, args []Value) Value {
		a, d := timeNs(args[0]), args[1].(*Term)
		r := mkBVBin("bvadd", a, d)
		// instants outside int64 unix-ns (years 1678..2262) are outside the time model
		z := mkBV(64, 0)
		an, dn, rn := mkBVCmp("bvslt", a, z), mkBVCmp("bvslt", d, z), mkBVCmp("bvslt", r, z)
		ovf := mkAnd(mkEq(an, dn), mkNot(mkEq(rn, an)))
		if vm.branch(ovf) {
			vm.note("time model range exceeded (instant outside years 1678..2262): path excluded")
			panic(&pathEnd{"time-model-range"})
		}
		return mkTime(r)
	}
	m["(time.Time).Sub"] = func(vm *VM, fn *ssa.Function, args []Value) Value {
		return satSub(timeNs(args[0]), timeNs(args[1]))
	}
	m["time.Since"] = func(vm *VM, fn *ssa.Function, args []Value) Value {
		return satSub(vm.clockNow(), timeNs(args[0]))
	}
	m["time.Until"] = func(vm *VM, fn *ssa.Function, args []Value) Value {
		return satSub(timeNs(args[0]), vm.clockNow())
	}
	ident := func(vm *VM, fn *ssa.Function, args []Value) Value { return args[0] }
	for _, n := range []string{"UTC", "Local", "In", "Round", "Truncate"} {
		m["(time.Time)."+n] = ident
	}
	m["(time.Time).UnixNano"] = func(vm *VM, fn *ssa.Function, args []Value) Value { return timeNs(args[0]) }
	m["(time.Time).Unix"] = func(vm *VM, fn *ssa.Function, args []Value) Value {
		return mkBVBin("bvsdiv", timeNs(args[0]), mkBV(64, 1e9))
	}
	m["(time.Time).UnixMilli"] = func(vm *VM, fn *ssa.Function, args []Value) Value {
		return mkBVBin("bvsdiv", timeNs(args[0]), mkBV(64, 1e6))
	}
	m["time.Unix"] = func(vm *VM, fn *ssa.Function, args []Value) Value {
		return mkTime(mkBVBin("bvadd", mkBVBin("bvmul", args[0].(*Term), mkBV(64, 1e9)), args[1].(*Term)))
	}
	m["(time.Time).Format"] = func(vm *VM, fn *ssa.Function, args []Value) Value {
		ns := timeNs(args[0])
		if ns.IsConst() {
			if l, ok := args[1].(StrV); ok && !l.Sym {
				return mkStr(time.Unix(0, ns.Int()).UTC().Format(l.C))
			}
		}
		return opaqueNum("time", ns)
	}
	m["(time.Time).String"] = func(vm *VM, fn *ssa.Function, args []Value) Value {
		return opaqueNum("time", timeNs(args[0]))
	}
	parse := func(vm *VM, s StrV, layout string) Value {
		okT := func(ns *Term) Value { return TupleV{mkTime(ns), IfaceV{}} }
		errT := func() Value { return TupleV{mkTime(mkBV(64, 0)), vm.newErrorStr("parsing time: cannot parse")} }
		if s.Opaque() {
			if len(s.Parts) == 1 && s.Parts[0].Kind == "time" {
				// Format truncates to whole seconds; Parse gives that second back
				ns := s.Parts[0].Num
				sec := mkBVBin("bvmul", mkBVBin("bvsdiv", ns, mkBV(64, 1e9)), mkBV(64, 1e9))
				if v, ok := vm.cfg.Params["exacttimefmt"]; ok && v == 1 {
					sec = ns
				}
				return okT(sec)
			}
			return errT()
		}
		if !s.Sym {
			var t time.Time
			var err error
			if layout == "" {
				t, err = http.ParseTime(s.C)
			} else {
				t, err = time.Parse(layout, s.C)
			}
			if err != nil {
				return errT()
			}
			return okT(mkBV(64, uint64(t.UnixNano())))
		}
		// symbolic text: the date grammar is not encoded; outcome is nondeterministic - except
		// that a text shorter than every date form cannot parse (http.TimeFormat has exactly 29
		// bytes, the other two forms http.ParseTime accepts have at least 24)
		if (layout == http.TimeFormat && s.Len() != len(http.TimeFormat)) || s.Len() < 19 || (layout == "" && s.Len() < 24) {
			return errT()
		}
		if vm.chooseLogged(2) == 0 {
			return errT()
		}
		return okT(vm.symInstant())
	}
	m["time.Parse"] = func(vm *VM, fn *ssa.Function, args []Value) Value {
		return parse(vm, args[1].(StrV), constStr(vm, args[0], "time.Parse layout"))
	}
	m["net/http.ParseTime"] = func(vm *VM, fn *ssa.Function, args []Value) Value {
		return parse(vm, args[0].(StrV), "")
	}
	// durations
	m["(time.Duration).Nanoseconds"] = func(vm *VM, fn *ssa.Function, args []Value) Value { return args[0] }
	m["(time.Duration).Microseconds"] = func(vm *VM, fn *ssa.Function, args []Value) Value {
		return mkBVBin("bvsdiv", args[0].(*Term), mkBV(64, 1e3))
	}
	m["(time.Duration).Milliseconds"] = func(vm *VM, fn *ssa.Function, args []Value) Value {
		return mkBVBin("bvsdiv", args[0].(*Term), mkBV(64, 1e6))
	}
	// d.Truncate(m): d rounded toward zero to a multiple of m; d itself when m <= 0
	m["(time.Duration).Truncate"] = func(vm *VM, fn *ssa.Function, args []Value) Value {
		d, mm := args[0].(*Term), args[1].(*Term)
		if vm.branch(mkBVCmp("bvsle", mm, mkBV(64, 0))) {
			return d
		}
		return mkBVBin("bvsub", d, mkBVBin("bvsrem", d, mm))
	}
	m["(time.Duration).Seconds"] = func(vm *VM, fn *ssa.Function, args []Value) Value {
		d := args[0].(*Term)
		if d.IsConst() {
			return mkFP(time.Duration(d.Int()).Seconds())
		}
		return newTerm("fsecs", fpSort, d)
	}
	m["(time.Duration).String"] = func(vm *VM, fn *ssa.Function, args []Value) Value {
		d := args[0].(*Term)
		if d.IsConst() {
			return mkStr(time.Duration(d.Int()).String())
		}
		return opaqueNum("duration", d)
	}
	m["time.Sleep"] = nop
	// tickers: the documented precondition d > 0 is enforced (NewTicker/Reset panic otherwise)
	m["time.NewTicker"] = func(vm *VM, fn *ssa.Function, args []Value) Value {
		d := args[0].(*Term)
		if vm.branch(mkBVCmp("bvsle", d, mkBV(64, 0))) {
			panic(&goPanic{runtime: "non-positive interval for NewTicker", where: vm.where()})
		}
		st := fn.Signature.Results().At(0).Type().(*types.Pointer).Elem()
		val := vm.zero(st).(*StructV)
		f := append([]Value(nil), val.F...)
		tc := ChanV{Obj: vm.newObject(&ChanData{Cap: 1}, nil, "ticker.C")}
		f[0] = tc
		vm.P.env["ticker.chan"] = tc
		o := vm.newObject(&StructV{F: f}, st, "Ticker")
		vm.P.env["ticker.interval"] = d
		return PtrV{Obj: o}
	}
	m["(*time.Ticker).Reset"] = func(vm *VM, fn *ssa.Function, args []Value) Value {
		d := args[1].(*Term)
		if vm.branch(mkBVCmp("bvsle", d, mkBV(64, 0))) {
			panic(&goPanic{runtime: "non-positive interval for Ticker.Reset", where: vm.where()})
		}
		vm.P.env["ticker.interval"] = d
		return nil
	}
	m["(*time.Ticker).Stop"] = nop
	// vTick(): the most recently created ticker fires once
	m["vocab.vTick"] = func(vm *VM, fn *ssa.Function, args []Value) Value {
		c, ok := vm.P.env["ticker.chan"]
		if !ok {
			panic(vm.fail("vTick without a ticker"))
		}
		ch := c.(ChanV)
		cd := ch.Obj.Val.(*ChanData)
		if len(cd.Q) < cd.Cap {
			vm.setObj(ch.Obj, &ChanData{Q: append(append([]Value(nil), cd.Q...), mkTime(vm.clockNow())), Cap: cd.Cap})
		}
		return nil
	}
	m["vocab.vTickerInterval"] = func(vm *VM, fn *ssa.Function, args []Value) Value {
		if v, ok := vm.P.env["ticker.interval"]; ok {
			return v
		}
		return mkBV(64, 0)
	}
	// harness access to the clock model
	m["vocab.symTime"] = func(vm *VM, fn *ssa.Function, args []Value) Value { return mkTime(vm.symInstant()) }
	m["vocab.vTimeOf"] = func(vm *VM, fn *ssa.Function, args []Value) Value { return mkTime(args[0].(*Term)) }
	m["vocab.vNs"] = func(vm *VM, fn *ssa.Function, args []Value) Value { return timeNs(args[0]) }
	m["vocab.vClockFreeze"] = func(vm *VM, fn *ssa.Function, args []Value) Value {
		vm.P.env["clock.frozen"] = args[0]
		return nil
	}
	m["vocab.vLastNow"] = func(vm *VM, fn *ssa.Function, args []Value) Value {
		if vm.P.lastNow == nil {
			return mkBV(64, uint64(clockBase))
		}
		return vm.P.lastNow
	}
}

// symInstant: an arbitrary instant within ±2^(timebits+1) ns of the clock base.
func (vm *VM) symInstant() *Term {
	if vm.cfg.Concrete != nil {
		return mkBV(64, uint64(vm.nextConcrete("int").Int))
	}
	bits := vm.timeBits() + 2
	v := vm.freshVar("t", bvSort(bits))
	ns := mkBVBin("bvadd", mkBV(64, uint64(clockBase)), mkSext(v, 64))
	vm.logNondet(nondetRec{kind: "int", terms: []*Term{ns}, width: 64, label: "instant"})
	return ns
}

// floatSecs: int(d.Seconds()) is exactly d/1e9 (truncated) for |d| < 2^46 ns, the largest
// span any harness uses; see DESIGN §2.4.
func (vm *VM) floatSecs(x *Term) (Value, bool) {
	if x.Op == "fsecs" {
		return mkBVBin("bvsdiv", x.Args[0], mkBV(64, 1e9)), true
	}
	return nil, false
}
