package main

// Loading /repo (+ overlay harness files) into go/ssa.

import (
	"fmt"
	"os"
	"path/filepath"
	"runtime/debug"
	"sort"
	"strings"

	"golang.org/x/tools/go/packages"
	"golang.org/x/tools/go/ssa"
	"golang.org/x/tools/go/ssa/ssautil"
)

type Loaded struct {
	Prog    *ssa.Program
	Pkgs    map[string]*ssa.Package
	Overlay map[string][]byte
	RepoDir string
}

var stdWithSource = []string{
	"strings", "strconv", "internal/strconv", "internal/stringslite", "internal/bytealg",
	"path", "bytes", "unicode", "unicode/utf8", "slices", "sort", "cmp", "maps", "iter",
	"errors", "io", "math/bits", "encoding/hex", "encoding/base64", "encoding/binary",
	"internal/byteorder", "net", "net/url",
}

var repoPkgs = []string{
	"reservoir/cache", "reservoir/config", "reservoir/metrics", "reservoir/proxy",
	"reservoir/proxy/headers", "reservoir/proxy/certs", "reservoir/proxy/responder",
	"reservoir/utils", "reservoir/utils/assertedpath", "reservoir/utils/atomics",
	"reservoir/utils/bytesize", "reservoir/utils/countingreader", "reservoir/utils/duration",
	"reservoir/utils/event", "reservoir/utils/phc", "reservoir/utils/syncmap",
	"reservoir/utils/typeutils", "reservoir/webserver/api", "reservoir/webserver/api/apitypes",
	"reservoir/webserver/api/auth", "reservoir/webserver/auth", "reservoir/webserver/middleware",
	"reservoir/webserver/api/endpoints/config", "reservoir/webserver/api/endpoints/log",
	"reservoir/webserver/api/endpoints/metrics", "reservoir/webserver/api/endpoints/version",
	"reservoir/webserver/api/auth/models",
}

// harnessOverlay builds the overlay map: every file under harnessDir/<import path>/ is
// injected as /repo/<rel dir>/<file>; files named *.go.tmpl get "package X" substituted.
func harnessOverlay(repoDir, harnessDir string, native bool) (map[string][]byte, error) {
	ov := map[string][]byte{}
	vocabName := "vocab_sym.go.in"
	if native {
		vocabName = "vocab_native.go.in"
	}
	vocab, err := os.ReadFile(filepath.Join(harnessDir, vocabName))
	if err != nil {
		return nil, err
	}
	err = filepath.Walk(harnessDir, func(p string, info os.FileInfo, err error) error {
		if err != nil || info.IsDir() || !strings.HasSuffix(p, ".go") {
			return err
		}
		rel, _ := filepath.Rel(harnessDir, p)
		dir := filepath.Dir(rel) // e.g. reservoir/proxy/headers
		if !strings.HasPrefix(dir, "reservoir") {
			return nil
		}
		sub := strings.TrimPrefix(strings.TrimPrefix(dir, "reservoir"), "/")
		data, err := os.ReadFile(p)
		if err != nil {
			return err
		}
		target := filepath.Join(repoDir, sub, filepath.Base(p))
		ov[target] = data
		// vocabulary file once per package dir
		vt := filepath.Join(repoDir, sub, "zz_verif_vocab.go")
		if _, ok := ov[vt]; !ok {
			pkgName := packageClause(data)
			ov[vt] = []byte(strings.Replace(string(vocab), "package PKG", "package "+pkgName, 1))
		}
		return nil
	})
	if err != nil {
		return nil, err
	}
	// the generated CSP constant this checkout lacks
	ov[filepath.Join(repoDir, "webserver/dashboard/csp/zz_header.go")] = []byte("package csp\n\nconst Header = \"\"\n")
	return ov, nil
}

func packageClause(src []byte) string {
	for _, l := range strings.Split(string(src), "\n") {
		l = strings.TrimSpace(l)
		if strings.HasPrefix(l, "package ") {
			return strings.Fields(l)[1]
		}
	}
	return "main"
}

func Load(repoDir, harnessDir string, extraPkgs []string) (*Loaded, error) {
	ov, err := harnessOverlay(repoDir, harnessDir, false)
	if err != nil {
		return nil, err
	}
	cfg := &packages.Config{
		Mode:    packages.LoadSyntax | packages.NeedModule,
		Dir:     repoDir,
		Overlay: ov,
		Env: append(os.Environ(), "GOFLAGS=-mod=mod", "GOPROXY=off", "GOSUMDB=off", "GOTOOLCHAIN=local",
			"CGO_ENABLED=0", "PATH=/opt/veriftools/go1.26.8/bin:"+os.Getenv("PATH")),
	}
	pats := append([]string{}, repoPkgs...)
	pats = append(pats, stdWithSource...)
	pats = append(pats, extraPkgs...)
	pkgs, err := packages.Load(cfg, pats...)
	if err != nil {
		return nil, err
	}
	var errs []string
	packages.Visit(pkgs, nil, func(p *packages.Package) {
		for _, e := range p.Errors {
			errs = append(errs, e.Error())
		}
	})
	if len(errs) > 0 {
		sort.Strings(errs)
		if len(errs) > 20 {
			errs = errs[:20]
		}
		return nil, fmt.Errorf("package load errors:\n%s", strings.Join(errs, "\n"))
	}
	prog, spkgs := ssautil.Packages(pkgs, ssa.InstantiateGenerics)
	_ = spkgs
	prog.Build()
	ld := &Loaded{Prog: prog, Pkgs: map[string]*ssa.Package{}, Overlay: ov, RepoDir: repoDir}
	for _, p := range prog.AllPackages() {
		ld.Pkgs[p.Pkg.Path()] = p
	}
	return ld, nil
}

func (ld *Loaded) FuncByName(pkg, name string) *ssa.Function {
	p := ld.Pkgs[pkg]
	if p == nil {
		return nil
	}
	return p.Func(name)
}

func stackTrace() string { return string(debug.Stack()) }
