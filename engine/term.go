package main

// SMT term language with constant folding.  Every Go scalar (bool, intN, uintN,
// float64) is one *Term.  Terms are immutable.

import (
	"fmt"
	"math"
	"strings"
	"sync/atomic"
)

type SortKind uint8

const (
	SBool SortKind = iota
	SBV
	SFP // float64 only
)

type Sort struct {
	K SortKind
	W int
}

func (s Sort) String() string {
	switch s.K {
	case SBool:
		return "Bool"
	case SBV:
		return fmt.Sprintf("(_ BitVec %d)", s.W)
	default:
		return "(_ FloatingPoint 11 53)"
	}
}

var boolSort = Sort{K: SBool}
var fpSort = Sort{K: SFP, W: 64}

func bvSort(w int) Sort { return Sort{K: SBV, W: w} }

type Term struct {
	Op   string // "const", "var", or an SMT-LIB operator
	S    Sort
	Args []*Term
	K    uint64 // const payload: BV value (masked), bool 0/1, float bits
	Name string // for var
	I, J int    // extract hi/lo, extend amount
	id   int64
	size int // approx tree size (for naming decisions)
}

var termCounter int64

func newTerm(op string, s Sort, args ...*Term) *Term {
	id := atomic.AddInt64(&termCounter, 1)
	sz := 1
	for _, a := range args {
		sz += a.size
		if sz > 1<<20 {
			sz = 1 << 20
		}
	}
	return &Term{Op: op, S: s, Args: args, id: id, size: sz}
}

func (t *Term) IsConst() bool { return t.Op == "const" }

func mask(w int) uint64 {
	if w >= 64 {
		return ^uint64(0)
	}
	return (uint64(1) << uint(w)) - 1
}

func signExt(v uint64, w int) int64 {
	if w >= 64 {
		return int64(v)
	}
	sh := uint(64 - w)
	return int64(v<<sh) >> sh
}

var tTrue = &Term{Op: "const", S: boolSort, K: 1, id: -1, size: 1}
var tFalse = &Term{Op: "const", S: boolSort, K: 0, id: -2, size: 1}

func mkBool(b bool) *Term {
	if b {
		return tTrue
	}
	return tFalse
}


func mkBV(w int, v uint64) *Term {
	v &= mask(w)
	return &Term{Op: "const", S: bvSort(w), K: v, size: 1}
}

func mkFP(f float64) *Term {
	return &Term{Op: "const", S: fpSort, K: math.Float64bits(f), size: 1}
}

func mkVar(name string, s Sort) *Term {
	t := newTerm("var", s)
	t.Name = name
	return t
}

func (t *Term) BoolVal() bool   { return t.K != 0 }
func (t *Term) Uint() uint64    { return t.K }
func (t *Term) Int() int64      { return signExt(t.K, t.S.W) }
func (t *Term) Float() float64  { return math.Float64frombits(t.K) }
func (t *Term) isTrue() bool    { return t.Op == "const" && t.S.K == SBool && t.K == 1 }
func (t *Term) isFalse() bool   { return t.Op == "const" && t.S.K == SBool && t.K == 0 }
func sameTerm(a, b *Term) bool {
	if a == b {
		return true
	}
	if a.Op == "const" && b.Op == "const" && a.S == b.S && a.K == b.K {
		return true
	}
	if a.Op == "var" && b.Op == "var" && a.Name == b.Name {
		return true
	}
	return false
}

func mkNot(a *Term) *Term {
	if a.IsConst() {
		return mkBool(!a.BoolVal())
	}
	if a.Op == "not" {
		return a.Args[0]
	}
	return newTerm("not", boolSort, a)
}

func mkAnd(a, b *Term) *Term {
	if a.IsConst() {
		if a.BoolVal() {
			return b
		}
		return tFalse
	}
	if b.IsConst() {
		if b.BoolVal() {
			return a
		}
		return tFalse
	}
	if sameTerm(a, b) {
		return a
	}
	return newTerm("and", boolSort, a, b)
}

func mkOr(a, b *Term) *Term {
	if a.IsConst() {
		if a.BoolVal() {
			return tTrue
		}
		return b
	}
	if b.IsConst() {
		if b.BoolVal() {
			return tTrue
		}
		return a
	}
	if sameTerm(a, b) {
		return a
	}
	return newTerm("or", boolSort, a, b)
}

func mkAndN(ts ...*Term) *Term {
	r := tTrue
	for _, t := range ts {
		r = mkAnd(r, t)
	}
	return r
}

func mkOrN(ts ...*Term) *Term {
	r := tFalse
	for _, t := range ts {
		r = mkOr(r, t)
	}
	return r
}

func mkImplies(a, b *Term) *Term { return mkOr(mkNot(a), b) }

func mkIte(c, a, b *Term) *Term {
	if c.IsConst() {
		if c.BoolVal() {
			return a
		}
		return b
	}
	if sameTerm(a, b) {
		return a
	}
	if a.S.K == SBool {
		if a.isTrue() && b.isFalse() {
			return c
		}
		if a.isFalse() && b.isTrue() {
			return mkNot(c)
		}
	}
	return newTerm("ite", a.S, c, a, b)
}

func mkEq(a, b *Term) *Term {
	if a.S != b.S {
		panic(fmt.Sprintf("mkEq sort mismatch %v %v", a.S, b.S))
	}
	if a.IsConst() && b.IsConst() {
		if a.S.K == SFP {
			return mkBool(a.Float() == b.Float())
		}
		return mkBool(a.K == b.K)
	}
	if sameTerm(a, b) && a.S.K != SFP {
		return tTrue
	}
	if a.S.K == SFP {
		return newTerm("fp.eq", boolSort, a, b)
	}
	if a.S.K == SBool {
		if a.IsConst() {
			if a.BoolVal() {
				return b
			}
			return mkNot(b)
		}
		if b.IsConst() {
			if b.BoolVal() {
				return a
			}
			return mkNot(a)
		}
	}
	return newTerm("=", boolSort, a, b)
}

// mkBVBin builds a bit-vector binary op with folding.  op is an SMT-LIB name.
func mkBVBin(op string, a, b *Term) *Term {
	if a.S != b.S || a.S.K != SBV {
		panic(fmt.Sprintf("mkBVBin %s sort mismatch %v %v", op, a.S, b.S))
	}
	w := a.S.W
	if a.IsConst() && b.IsConst() {
		x, y := a.K, b.K
		sx, sy := signExt(x, w), signExt(y, w)
		var r uint64
		ok := true
		switch op {
		case "bvadd":
			r = x + y
		case "bvsub":
			r = x - y
		case "bvmul":
			r = x * y
		case "bvand":
			r = x & y
		case "bvor":
			r = x | y
		case "bvxor":
			r = x ^ y
		case "bvudiv":
			if y == 0 {
				r = mask(w)
			} else {
				r = x / y
			}
		case "bvurem":
			if y == 0 {
				r = x
			} else {
				r = x % y
			}
		case "bvsdiv":
			if sy == 0 {
				if sx >= 0 {
					r = mask(w)
				} else {
					r = 1
				}
			} else if sy == -1 {
				r = uint64(-sx)
			} else {
				r = uint64(sx / sy)
			}
		case "bvsrem":
			if sy == 0 {
				r = x
			} else if sy == -1 {
				r = 0
			} else {
				r = uint64(sx % sy)
			}
		case "bvshl":
			if y >= uint64(w) {
				r = 0
			} else {
				r = x << y
			}
		case "bvlshr":
			if y >= uint64(w) {
				r = 0
			} else {
				r = x >> y
			}
		case "bvashr":
			if y >= uint64(w) {
				if sx < 0 {
					r = mask(w)
				} else {
					r = 0
				}
			} else {
				r = uint64(sx >> y)
			}
		default:
			ok = false
		}
		if ok {
			return mkBV(w, r)
		}
	}
	// light identities
	switch op {
	case "bvadd":
		if a.IsConst() && a.K == 0 {
			return b
		}
		if b.IsConst() && b.K == 0 {
			return a
		}
	case "bvsub":
		if b.IsConst() && b.K == 0 {
			return a
		}
		if sameTerm(a, b) {
			return mkBV(w, 0)
		}
	case "bvmul":
		if a.IsConst() && a.K == 1 {
			return b
		}
		if b.IsConst() && b.K == 1 {
			return a
		}
		if (a.IsConst() && a.K == 0) || (b.IsConst() && b.K == 0) {
			return mkBV(w, 0)
		}
	case "bvor", "bvxor":
		if a.IsConst() && a.K == 0 {
			return b
		}
		if b.IsConst() && b.K == 0 {
			return a
		}
	case "bvand":
		if (a.IsConst() && a.K == 0) || (b.IsConst() && b.K == 0) {
			return mkBV(w, 0)
		}
		if a.IsConst() && a.K == mask(w) {
			return b
		}
		if b.IsConst() && b.K == mask(w) {
			return a
		}
	case "bvshl", "bvlshr", "bvashr":
		if b.IsConst() && b.K == 0 {
			return a
		}
	}
	return newTerm(op, a.S, a, b)
}

func mkBVCmp(op string, a, b *Term) *Term {
	if a.S != b.S || a.S.K != SBV {
		panic(fmt.Sprintf("mkBVCmp %s sort mismatch %v %v", op, a.S, b.S))
	}
	w := a.S.W
	if a.IsConst() && b.IsConst() {
		x, y := a.K, b.K
		sx, sy := signExt(x, w), signExt(y, w)
		switch op {
		case "bvult":
			return mkBool(x < y)
		case "bvule":
			return mkBool(x <= y)
		case "bvugt":
			return mkBool(x > y)
		case "bvuge":
			return mkBool(x >= y)
		case "bvslt":
			return mkBool(sx < sy)
		case "bvsle":
			return mkBool(sx <= sy)
		case "bvsgt":
			return mkBool(sx > sy)
		case "bvsge":
			return mkBool(sx >= sy)
		}
	}
	if sameTerm(a, b) {
		switch op {
		case "bvult", "bvugt", "bvslt", "bvsgt":
			return tFalse
		default:
			return tTrue
		}
	}
	return newTerm(op, boolSort, a, b)
}

func mkBVNot(a *Term) *Term {
	if a.IsConst() {
		return mkBV(a.S.W, ^a.K)
	}
	return newTerm("bvnot", a.S, a)
}

func mkBVNeg(a *Term) *Term {
	if a.IsConst() {
		return mkBV(a.S.W, -a.K)
	}
	return newTerm("bvneg", a.S, a)
}

func mkExtract(hi, lo int, a *Term) *Term {
	w := hi - lo + 1
	if a.IsConst() {
		return mkBV(w, a.K>>uint(lo))
	}
	if lo == 0 && w == a.S.W {
		return a
	}
	// extract of zero/sign extension of a narrower value
	if (a.Op == "zext" || a.Op == "sext") && lo == 0 && w <= a.Args[0].S.W {
		return mkExtract(hi, lo, a.Args[0])
	}
	t := newTerm("extract", bvSort(w), a)
	t.I, t.J = hi, lo
	return t
}

func mkZext(a *Term, to int) *Term {
	if to == a.S.W {
		return a
	}
	if to < a.S.W {
		return mkExtract(to-1, 0, a)
	}
	if a.IsConst() {
		return mkBV(to, a.K)
	}
	t := newTerm("zext", bvSort(to), a)
	t.I = to - a.S.W
	return t
}

func mkSext(a *Term, to int) *Term {
	if to == a.S.W {
		return a
	}
	if to < a.S.W {
		return mkExtract(to-1, 0, a)
	}
	if a.IsConst() {
		return mkBV(to, uint64(signExt(a.K, a.S.W)))
	}
	t := newTerm("sext", bvSort(to), a)
	t.I = to - a.S.W
	return t
}

// ---- floating point (float64 only) ----

func mkFPBin(op string, a, b *Term) *Term {
	if a.IsConst() && b.IsConst() {
		x, y := a.Float(), b.Float()
		switch op {
		case "fp.add":
			return mkFP(x + y)
		case "fp.sub":
			return mkFP(x - y)
		case "fp.mul":
			return mkFP(x * y)
		case "fp.div":
			return mkFP(x / y)
		}
	}
	return newTerm(op, fpSort, a, b)
}

func mkFPCmp(op string, a, b *Term) *Term {
	if a.IsConst() && b.IsConst() {
		x, y := a.Float(), b.Float()
		switch op {
		case "fp.lt":
			return mkBool(x < y)
		case "fp.leq":
			return mkBool(x <= y)
		case "fp.gt":
			return mkBool(x > y)
		case "fp.geq":
			return mkBool(x >= y)
		}
	}
	return newTerm(op, boolSort, a, b)
}

func mkIntToFP(a *Term, signed bool) *Term {
	if a.IsConst() {
		if signed {
			return mkFP(float64(a.Int()))
		}
		return mkFP(float64(a.Uint()))
	}
	if signed {
		return newTerm("to_fp_signed", fpSort, a)
	}
	return newTerm("to_fp_unsigned", fpSort, a)
}

func mkFPToInt(a *Term, w int, signed bool) *Term {
	if a.IsConst() {
		f := a.Float()
		if signed {
			return mkBV(w, uint64(int64(f)))
		}
		return mkBV(w, uint64(f))
	}
	if signed {
		t := newTerm("fp.to_sbv", bvSort(w), a)
		return t
	}
	return newTerm("fp.to_ubv", bvSort(w), a)
}

// ---- printing ----

func (t *Term) leaf() bool { return t.Op == "const" || t.Op == "var" }

func constSMT(t *Term) string {
	switch t.S.K {
	case SBool:
		if t.K != 0 {
			return "true"
		}
		return "false"
	case SBV:
		if t.S.W%4 == 0 {
			return fmt.Sprintf("#x%0*x", t.S.W/4, t.K)
		}
		return fmt.Sprintf("#b%0*b", t.S.W, t.K)
	default:
		b := t.K
		return fmt.Sprintf("(fp #b%b #b%011b #b%052b)", b>>63, (b>>52)&0x7ff, b&((1<<52)-1))
	}
}

// smtHead renders the operator application with the given argument renderings.
func smtApply(t *Term, args []string) string {
	switch t.Op {
	case "extract":
		return fmt.Sprintf("((_ extract %d %d) %s)", t.I, t.J, args[0])
	case "zext":
		return fmt.Sprintf("((_ zero_extend %d) %s)", t.I, args[0])
	case "sext":
		return fmt.Sprintf("((_ sign_extend %d) %s)", t.I, args[0])
	case "fp.add", "fp.sub", "fp.mul", "fp.div":
		return fmt.Sprintf("(%s RNE %s)", t.Op, strings.Join(args, " "))
	case "to_fp_signed":
		return fmt.Sprintf("((_ to_fp 11 53) RNE %s)", args[0])
	case "to_fp_unsigned":
		return fmt.Sprintf("((_ to_fp_unsigned 11 53) RNE %s)", args[0])
	case "fp.to_sbv":
		return fmt.Sprintf("((_ fp.to_sbv %d) RTZ %s)", t.S.W, args[0])
	case "fsecs":
		return fmt.Sprintf("(fp.div RNE ((_ to_fp 11 53) RNE %s) ((_ to_fp 11 53) RNE 1000000000.0))", args[0])
	case "fp.to_ubv":
		return fmt.Sprintf("((_ fp.to_ubv %d) RTZ %s)", t.S.W, args[0])
	}
	return "(" + t.Op + " " + strings.Join(args, " ") + ")"
}

// String renders a fully inlined term (debug / small terms only).
func (t *Term) String() string {
	switch t.Op {
	case "const":
		return constSMT(t)
	case "var":
		return t.Name
	}
	args := make([]string, len(t.Args))
	for i, a := range t.Args {
		args[i] = a.String()
	}
	return smtApply(t, args)
}
