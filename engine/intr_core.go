package main

// Models ("intrinsics") for the harness vocabulary and for body-less library functions.
// Every entry here is part of the trusted base and is listed in DESIGN.md §2.4.

import (
	"crypto/sha256"
	"fmt"
	"go/types"
	"strconv"
	"strings"

	"golang.org/x/tools/go/ssa"
)

func nop(vm *VM, fn *ssa.Function, args []Value) Value { return nil }

func buildIntrinsics() map[string]Intrinsic {
	m := map[string]Intrinsic{}
	addVocab(m)
	addLogFmt(m)
	addStrings(m)
	addErrors(m)
	addSync(m)
	addReflect(m)
	addTime(m)
	addIO(m)
	addHTTP(m)
	addMisc(m)
	for _, f := range extraIntrinsics {
		f(m)
	}
	return m
}

// ---------------- harness vocabulary ----------------

func (vm *VM) logNondet(rec nondetRec) { vm.P.nondets = append(vm.P.nondets, rec) }

func (vm *VM) symInt(w int, label string) *Term {
	if vm.cfg.Concrete != nil {
		v := vm.nextConcrete("int")
		return mkBV(w, uint64(v.Int))
	}
	t := vm.freshVar("n", bvSort(w))
	vm.logNondet(nondetRec{kind: "int", terms: []*Term{t}, width: w, label: label})
	return t
}

func (vm *VM) symBytes(n int, kind string) []*Term {
	if vm.cfg.Concrete != nil {
		v := vm.nextConcrete(kind)
		b := make([]*Term, len(v.Bytes))
		for i := range b {
			b[i] = mkBV(8, uint64(v.Bytes[i]))
		}
		return b
	}
	b := make([]*Term, n)
	for i := range b {
		b[i] = vm.freshVar("b", bvSort(8))
	}
	vm.logNondet(nondetRec{kind: kind, terms: b})
	return b
}

func addVocab(m map[string]Intrinsic) {
	m["vocab.symBool"] = func(vm *VM, fn *ssa.Function, args []Value) Value {
		if vm.cfg.Concrete != nil {
			return mkBool(vm.nextConcrete("bool").Bool)
		}
		t := vm.freshVar("p", boolSort)
		vm.logNondet(nondetRec{kind: "bool", terms: []*Term{t}})
		return t
	}
	for name, w := range map[string]int{"symInt64": 64, "symInt": 64, "symUint64": 64, "symInt32": 32, "symUint32": 32, "symByte": 8, "symUint16": 16} {
		w := w
		m["vocab."+name] = func(vm *VM, fn *ssa.Function, args []Value) Value { return vm.symInt(w, "") }
	}
	// symRange(lo, hi) forks one path per value (structural choice among few values)
	m["vocab.symRange"] = func(vm *VM, fn *ssa.Function, args []Value) Value {
		lo, hi := constInt(vm, args[0], "symRange lo"), constInt(vm, args[1], "symRange hi")
		if hi < lo {
			panic(&pathEnd{"empty range"})
		}
		k := vm.chooseLogged(hi - lo + 1)
		return mkBV(64, uint64(int64(lo+k)))
	}
	m["vocab.symChoice"] = func(vm *VM, fn *ssa.Function, args []Value) Value {
		n := constInt(vm, args[0], "symChoice n")
		return mkBV(64, uint64(vm.chooseLogged(n)))
	}
	m["vocab.symString"] = func(vm *VM, fn *ssa.Function, args []Value) Value {
		max := constInt(vm, args[0], "symString max")
		n := 0
		if vm.cfg.Concrete == nil {
			n = vm.choose(max + 1)
		}
		return strFromBytes(vm.symBytes(n, "string"))
	}
	m["vocab.symStringN"] = func(vm *VM, fn *ssa.Function, args []Value) Value {
		return strFromBytes(vm.symBytes(constInt(vm, args[0], "symStringN n"), "string"))
	}
	m["vocab.symBytes"] = func(vm *VM, fn *ssa.Function, args []Value) Value {
		b := vm.symBytes(constInt(vm, args[0], "symBytes n"), "bytes")
		vals := make([]Value, len(b))
		for i := range b {
			vals[i] = b[i]
		}
		return vm.sliceFromValues(vals)
	}
	m["vocab.vAssume"] = func(vm *VM, fn *ssa.Function, args []Value) Value {
		vm.assume(args[0].(*Term))
		return nil
	}
	m["vocab.vAssert"] = func(vm *VM, fn *ssa.Function, args []Value) Value {
		vm.obligation(args[0].(*Term), constStr(vm, args[1], "vAssert id"))
		return nil
	}
	m["vocab.vReach"] = func(vm *VM, fn *ssa.Function, args []Value) Value {
		vm.P.reach[constStr(vm, args[0], "vReach label")] = true
		return nil
	}
	m["vocab.vNote"] = func(vm *VM, fn *ssa.Function, args []Value) Value {
		vm.note(constStr(vm, args[0], "vNote"))
		return nil
	}
	m["vocab.vTrace"] = func(vm *VM, fn *ssa.Function, args []Value) Value {
		if iv, ok := args[0].(IfaceV); ok {
			if sv, isStr := iv.V.(StrV); isStr && !sv.Sym && !sv.Opaque() {
				vm.trace("%s", sv.C)
				return nil
			}
		}
		vm.trace("%s", showValue(args[0]))
		return nil
	}
	m["vocab.vParam"] = func(vm *VM, fn *ssa.Function, args []Value) Value {
		name := constStr(vm, args[0], "vParam name")
		if v, ok := vm.cfg.Params[name]; ok {
			return mkBV(64, uint64(int64(v)))
		}
		return args[1]
	}
	// vNoPanic(f, id): a panic inside f is a violation
	m["vocab.vNoPanic"] = func(vm *VM, fn *ssa.Function, args []Value) Value {
		id := constStr(vm, args[1], "vNoPanic id")
		vm.P.Oblig++
		if gp := vm.catchPanic(args[0]); gp != nil {
			vm.recordViolation(id, gp.String(), tTrue)
		} else {
			vm.P.Discharged++
		}
		return nil
	}
	// vPanics(f) bool: observe a panic as an outcome
	m["vocab.vPanics"] = func(vm *VM, fn *ssa.Function, args []Value) Value {
		return mkBool(vm.catchPanic(args[0]) != nil)
	}
	// vBlocks(f) bool: f, run on the calling thread, cannot make progress (it waits for a
	// channel or a lock that nobody left in this history will ever serve)
	m["vocab.vBlocks"] = func(vm *VM, fn *ssa.Function, args []Value) (res Value) {
		saved, savedDepth, savedStack := vm.cur, vm.depth, len(vm.panicStack)
		defer func() {
			if r := recover(); r != nil {
				bs, ok := r.(*blockedSignal)
				if !ok {
					panic(r)
				}
				vm.note("blocked: " + bs.what)
				vm.cur, vm.depth = saved, savedDepth
				vm.panicStack = vm.panicStack[:savedStack]
				res = tTrue
			}
		}()
		vm.callValue(args[0], nil, nil)
		return tFalse
	}
	m["vocab.vRunPending"] = func(vm *VM, fn *ssa.Function, args []Value) Value {
		return mkBV(64, uint64(vm.runPendingGoroutines()))
	}
	m["vocab.vRunPendingAt"] = func(vm *VM, fn *ssa.Function, args []Value) Value {
		return mkBV(64, uint64(vm.runPendingAt(constInt(vm, args[0], "vRunPendingAt index"))))
	}
	m["vocab.vDropPending"] = func(vm *VM, fn *ssa.Function, args []Value) Value {
		n := len(vm.P.pending)
		vm.P.pending = nil
		return mkBV(64, uint64(n))
	}
	// vResumeParked(): parked goroutines that can go on do so (no queued goroutine is started)
	m["vocab.vResumeParked"] = func(vm *VM, fn *ssa.Function, args []Value) Value {
		vm.resumeReady()
		return mkBV(64, uint64(len(vm.P.parked)))
	}
	m["vocab.vParkedCount"] = func(vm *VM, fn *ssa.Function, args []Value) Value {
		return mkBV(64, uint64(len(vm.P.parked)))
	}
	m["vocab.vPendingCount"] = func(vm *VM, fn *ssa.Function, args []Value) Value {
		return mkBV(64, uint64(len(vm.P.pending)))
	}
	m["vocab.vPermuteMaps"] = func(vm *VM, fn *ssa.Function, args []Value) Value {
		vm.P.env["permute"] = args[0]
		return nil
	}
	// vIsConcrete(x) reports whether an integer is a constant on this path (debug aid)
	m["vocab.vConcrete"] = func(vm *VM, fn *ssa.Function, args []Value) Value {
		return mkBool(args[0].(*Term).IsConst())
	}
	// vNumIn(s, prefix) extracts the number rendered right after the literal suffix `prefix`
	// in an opaque string (see fmt/strconv models); ok=false if absent.
	m["vocab.vNumIn"] = func(vm *VM, fn *ssa.Function, args []Value) Value {
		s := args[0].(StrV)
		prefix := constStr(vm, args[1], "vNumIn prefix")
		if t, ok := numAfter(s, prefix); ok {
			return TupleV{mkSext(t, 64), tTrue}
		}
		return TupleV{mkBV(64, 0), tFalse}
	}
	// vLitAfterNum(s): the literal text that follows the first rendered number of an opaque string
	m["vocab.vLitAfterNum"] = func(vm *VM, fn *ssa.Function, args []Value) Value {
		s := args[0].(StrV)
		if !s.Opaque() {
			if s.Sym {
				return StrV{}
			}
			i := 0
			for i < len(s.C) && (s.C[i] == '-' || (s.C[i] >= '0' && s.C[i] <= '9')) {
				i++
			}
			return mkStr(s.C[i:])
		}
		for i, p := range s.Parts {
			if p.Num != nil {
				if i+1 < len(s.Parts) && s.Parts[i+1].Num == nil {
					return s.Parts[i+1].Lit
				}
				return StrV{}
			}
		}
		return StrV{}
	}
	m["vocab.vTimeString"] = func(vm *VM, fn *ssa.Function, args []Value) Value {
		return opaqueNum("time", timeNs(args[0]))
	}
}

// numAfter finds a rendered number immediately preceded by the literal text prefix.
func numAfter(s StrV, prefix string) (*Term, bool) {
	ps := s.parts()
	for i, p := range ps {
		if p.Num == nil || (p.Kind != "dec" && p.Kind != "udec") {
			// a concrete literal: parse the digits after prefix
			if p.Num == nil && !p.Lit.Sym && prefix != "" {
				j := strings.Index(p.Lit.C, prefix)
				if j < 0 {
					continue
				}
				rest := p.Lit.C[j+len(prefix):]
				k := 0
				if k < len(rest) && rest[k] == '-' {
					k++
				}
				for k < len(rest) && rest[k] >= '0' && rest[k] <= '9' {
					k++
				}
				if v, err := strconv.ParseInt(rest[:k], 10, 64); err == nil {
					return mkBV(64, uint64(v)), true
				}
			}
			continue
		}
		if prefix == "" && i == 0 {
			return p.Num, true
		}
		if i > 0 && ps[i-1].Num == nil && !ps[i-1].Lit.Sym && strings.HasSuffix(ps[i-1].Lit.C, prefix) {
			return p.Num, true
		}
	}
	return nil, false
}

func (vm *VM) chooseLogged(n int) int {
	if n <= 1 {
		return 0
	}
	if vm.cfg.Concrete != nil {
		return int(vm.nextConcrete("choice").Int)
	}
	k := vm.choose(n)
	vm.logNondet(nondetRec{kind: "choice", choice: k})
	return k
}

// catchPanic runs closure f and returns the Go panic it raised, if any.
func (vm *VM) catchPanic(f Value) (gp *goPanic) {
	saved := vm.cur
	savedDepth := vm.depth
	savedStack := len(vm.panicStack)
	defer func() {
		if r := recover(); r != nil {
			p, ok := r.(*goPanic)
			if !ok {
				panic(r)
			}
			gp = p
			vm.cur = saved
			vm.depth = savedDepth
			vm.panicStack = vm.panicStack[:savedStack]
		}
	}()
	vm.callValue(f, nil, nil)
	return nil
}

// ---------------- logging / formatting ----------------

func addLogFmt(m map[string]Intrinsic) {
	for _, n := range []string{"Debug", "Info", "Warn", "Error", "DebugContext", "InfoContext", "WarnContext", "ErrorContext", "Log", "SetDefault", "SetLogLoggerLevel"} {
		m["log/slog."+n] = nop
	}
	for _, n := range []string{"Print", "Println", "Printf", "Fprintf", "Fprintln", "Fprint"} {
		m["fmt."+n] = func(vm *VM, fn *ssa.Function, args []Value) Value { return vm.opaqueResult(fn) }
	}
	m["fmt.Sprintf"] = func(vm *VM, fn *ssa.Function, args []Value) Value {
		s, _ := vm.sprintf(args[0].(StrV), vm.sliceElems(args[1].(SliceV)))
		return s
	}
	m["fmt.Sprint"] = func(vm *VM, fn *ssa.Function, args []Value) Value {
		var out StrV
		for _, a := range vm.sliceElems(args[0].(SliceV)) {
			out = strConcat(out, vm.fmtValue(a.(IfaceV), 'v'))
		}
		return out
	}
	m["fmt.Errorf"] = func(vm *VM, fn *ssa.Function, args []Value) Value {
		s, wrapped := vm.sprintf(args[0].(StrV), vm.sliceElems(args[1].(SliceV)))
		return vm.newError(s, wrapped)
	}
}

// sprintf implements the verbs that occur in the code base.  Symbolic integers render as
// opaque decimal parts.
func (vm *VM) sprintf(format StrV, args []Value) (StrV, []Value) {
	if format.Sym || format.Opaque() {
		panic(vm.fail("symbolic format string"))
	}
	f := format.C
	var out StrV
	var wrapped []Value
	ai := 0
	for i := 0; i < len(f); i++ {
		if f[i] != '%' {
			j := i
			for j < len(f) && f[j] != '%' {
				j++
			}
			out = strConcat(out, mkStr(f[i:j]))
			i = j - 1
			continue
		}
		i++
		if i >= len(f) {
			break
		}
		// flags/width (ignored for symbolic values)
		start := i
		for i < len(f) && strings.IndexByte("+-# 0123456789.", f[i]) >= 0 {
			i++
		}
		flags := f[start:i]
		if i >= len(f) {
			break
		}
		verb := f[i]
		if verb == '%' {
			out = strConcat(out, mkStr("%"))
			continue
		}
		if ai >= len(args) {
			out = strConcat(out, mkStr("%!"+string(verb)+"(MISSING)"))
			continue
		}
		a := args[ai].(IfaceV)
		ai++
		if verb == 'w' {
			wrapped = append(wrapped, a)
			verb = 'v'
		}
		_ = flags
		out = strConcat(out, vm.fmtValueFlags(a, verb, flags))
	}
	return out, wrapped
}

func (vm *VM) fmtValue(a IfaceV, verb byte) StrV { return vm.fmtValueFlags(a, verb, "") }

func (vm *VM) fmtValueFlags(a IfaceV, verb byte, flags string) StrV {
	if a.Dyn == nil {
		return mkStr("<nil>")
	}
	// error / Stringer
	if verb == 'v' || verb == 's' || verb == 'q' {
		if msg, ok := vm.errorMessage(a); ok {
			return msg
		}
		if dt, ok := a.Dyn.(types.Type); ok {
			if m := vm.findMethod(dt, "String"); m != nil && m.Signature.Params().Len() == 0 && m.Signature.Results().Len() == 1 && isString(m.Signature.Results().At(0).Type()) && m.Blocks != nil {
				saved := vm.cur
				r := vm.callFunction(m, []Value{a.V}, nil)
				vm.cur = saved
				return r.(StrV)
			}
		}
	}
	switch v := a.V.(type) {
	case StrV:
		if verb == 'q' {
			return strConcat(strConcat(mkStr("\""), v), mkStr("\""))
		}
		return v
	case *Term:
		dt, _ := a.Dyn.(types.Type)
		switch v.S.K {
		case SBool:
			if v.IsConst() {
				return mkStr(strconv.FormatBool(v.BoolVal()))
			}
			return StrV{Parts: []StrPart{{Num: mkIte(v, mkBV(64, 1), mkBV(64, 0)), Kind: "bool"}}}
		case SFP:
			if v.IsConst() {
				return mkStr(strconv.FormatFloat(v.Float(), 'g', -1, 64))
			}
			return StrV{Parts: []StrPart{{Num: v, Kind: "float"}}}
		}
		signed := dt != nil && isSigned(dt)
		if v.IsConst() {
			switch verb {
			case 'c':
				return mkStr(string(rune(v.Int())))
			case 'x':
				return mkStr(strconv.FormatUint(v.Uint(), 16))
			case 'q':
				return mkStr(strconv.QuoteRune(rune(v.Int())))
			}
			var s string
			if signed {
				s = strconv.FormatInt(v.Int(), 10)
			} else {
				s = strconv.FormatUint(v.Uint(), 10)
			}
			if strings.HasPrefix(flags, "0") && len(flags) > 1 {
				if w, err := strconv.Atoi(flags[1:]); err == nil {
					for len(s) < w {
						s = "0" + s
					}
				}
			}
			return mkStr(s)
		}
		if verb == 'c' {
			return vm.runeToString(v, signed)
		}
		if signed {
			return opaqueNum("dec", mkSext(v, 64))
		}
		return opaqueNum("udec", mkZext(v, 64))
	case PtrV:
		if v.Obj == nil {
			return mkStr("<nil>")
		}
		return mkStr(fmt.Sprintf("0xc%06d", v.Obj.ID))
	case *StructV:
		// time.Time renders as an opaque instant
		if dt, ok := a.Dyn.(types.Type); ok && isTimeType(dt) {
			return opaqueNum("time", timeNs(v))
		}
		out := mkStr("{")
		for i, f := range v.F {
			if i > 0 {
				out = strConcat(out, mkStr(" "))
			}
			out = strConcat(out, vm.fmtAny(f))
		}
		return strConcat(out, mkStr("}"))
	case IfaceV:
		return vm.fmtValueFlags(v, verb, flags)
	}
	return mkStr(fmt.Sprintf("<%s>", dynName(a.Dyn)))
}

func (vm *VM) fmtAny(v Value) StrV {
	switch x := v.(type) {
	case StrV:
		return x
	case *Term:
		if x.IsConst() {
			switch x.S.K {
			case SBool:
				return mkStr(strconv.FormatBool(x.BoolVal()))
			case SBV:
				return mkStr(strconv.FormatInt(x.Int(), 10))
			}
		}
		if x.S.K == SBV {
			return opaqueNum("dec", mkSext(x, 64))
		}
		return mkStr("?")
	case IfaceV:
		if x.Dyn == nil {
			return mkStr("<nil>")
		}
		return vm.fmtValue(x, 'v')
	}
	return mkStr("<" + fmt.Sprintf("%T", v) + ">")
}

func (vm *VM) findMethod(t types.Type, name string) *ssa.Function {
	ms := vm.prog.MethodSets.MethodSet(t)
	for i := 0; i < ms.Len(); i++ {
		sel := ms.At(i)
		if sel.Obj().Name() == name {
			return vm.prog.MethodValue(sel)
		}
	}
	return nil
}

// ---------------- errors ----------------

// Errors created by models are values of synthetic type "error" holding a pointer to an
// object {msg, wrapped...}.  Real errors (errors.New from the loaded `errors` package, typed
// errors of the repo) keep their real representation.

type errPayload struct {
	msg     StrV
	wrapped []Value // IfaceV
}

func (vm *VM) newError(msg StrV, wrapped []Value) Value {
	o := vm.newObject(nil, nil, "error")
	o.Ext = &errPayload{msg: msg, wrapped: wrapped}
	return IfaceV{Dyn: vm.synType("error"), V: PtrV{Obj: o}}
}

func (vm *VM) newErrorStr(msg string) Value { return vm.newError(mkStr(msg), nil) }

// errorMessage returns the Error() text of an error value if it can be computed.
func (vm *VM) errorMessage(a IfaceV) (StrV, bool) {
	switch d := a.Dyn.(type) {
	case *SynType:
		switch d.Name {
		case "error":
			return a.V.(PtrV).Obj.Ext.(*errPayload).msg, true
		case "sentinel":
			return a.V.(StrV), true
		case "runtime.Error":
			return a.V.(StrV), true
		}
	case types.Type:
		if m := vm.findMethod(d, "Error"); m != nil && m.Blocks != nil {
			saved := vm.cur
			r := vm.callFunction(m, []Value{a.V}, nil)
			vm.cur = saved
			return r.(StrV), true
		}
	}
	return StrV{}, false
}

func (vm *VM) unwrapOnce(a IfaceV) []IfaceV {
	switch d := a.Dyn.(type) {
	case *SynType:
		if d.Name == "error" {
			var out []IfaceV
			for _, w := range a.V.(PtrV).Obj.Ext.(*errPayload).wrapped {
				out = append(out, w.(IfaceV))
			}
			return out
		}
	case types.Type:
		if m := vm.findMethod(d, "Unwrap"); m != nil && m.Blocks != nil {
			saved := vm.cur
			r := vm.callFunction(m, []Value{a.V}, nil)
			vm.cur = saved
			switch x := r.(type) {
			case IfaceV:
				if x.Dyn != nil {
					return []IfaceV{x}
				}
			case SliceV:
				var out []IfaceV
				for _, e := range vm.sliceElems(x) {
					out = append(out, e.(IfaceV))
				}
				return out
			}
		}
	}
	return nil
}

func (vm *VM) errorsIs(err, target IfaceV) bool {
	if err.Dyn == nil || target.Dyn == nil {
		return err.Dyn == nil && target.Dyn == nil
	}
	if sameDyn(err.Dyn, target.Dyn) {
		if c := vm.valueEq(err.V, target.V); c.isTrue() {
			return true
		} else if !c.isFalse() {
			if vm.branch(c) {
				return true
			}
		}
	}
	// Is method
	if dt, ok := err.Dyn.(types.Type); ok {
		if m := vm.findMethod(dt, "Is"); m != nil && m.Blocks != nil {
			saved := vm.cur
			r := vm.callFunction(m, []Value{err.V, target}, nil).(*Term)
			vm.cur = saved
			if vm.branch(r) {
				return true
			}
		}
	}
	for _, w := range vm.unwrapOnce(err) {
		if vm.errorsIs(w, target) {
			return true
		}
	}
	return false
}

func addErrors(m map[string]Intrinsic) {
	m["errors.Is"] = func(vm *VM, fn *ssa.Function, args []Value) Value {
		return mkBool(vm.errorsIs(args[0].(IfaceV), args[1].(IfaceV)))
	}
	m["errors.Unwrap"] = func(vm *VM, fn *ssa.Function, args []Value) Value {
		ws := vm.unwrapOnce(args[0].(IfaceV))
		if len(ws) == 1 {
			return ws[0]
		}
		return IfaceV{}
	}
	m["syn:error.Error"] = func(vm *VM, fn *ssa.Function, args []Value) Value {
		return args[0].(PtrV).Obj.Ext.(*errPayload).msg
	}
	m["syn:sentinel.Error"] = func(vm *VM, fn *ssa.Function, args []Value) Value { return args[0] }
	m["syn:runtime.Error.Error"] = func(vm *VM, fn *ssa.Function, args []Value) Value { return args[0] }
	m["syn:runtime.Error.RuntimeError"] = nop
}

// sentinel returns the opaque error value standing for a library sentinel (io.EOF ...).
func (vm *VM) sentinel(name string) IfaceV {
	return IfaceV{Dyn: vm.synType("sentinel"), V: mkStr(name)}
}

// ---------------- misc ----------------

func addMisc(m map[string]Intrinsic) {
	m["internal/abi.NoEscape"] = func(vm *VM, fn *ssa.Function, args []Value) Value { return args[0] }
	m["internal/abi.Escape"] = func(vm *VM, fn *ssa.Function, args []Value) Value { return args[0] }
	m["runtime.KeepAlive"] = nop
	m["maps.clone"] = func(vm *VM, fn *ssa.Function, args []Value) Value {
		iv := args[0].(IfaceV)
		src := iv.V.(MapV)
		if src.Obj == nil {
			return iv
		}
		vm.noteAccess(PtrV{Obj: src.Obj}, false)
		nm := vm.newMap()
		nm.Obj.Val = &MapData{E: append([]MapEntry(nil), src.Obj.Val.(*MapData).E...)}
		return IfaceV{Dyn: iv.Dyn, V: nm}
	}
	m["internal/race.Enabled"] = nop
	m["internal/bytealg.MakeNoZero"] = func(vm *VM, fn *ssa.Function, args []Value) Value {
		n := constInt(vm, args[0], "MakeNoZero")
		e := make([]Value, n)
		z := mkBV(8, 0)
		for i := range e {
			e[i] = z
		}
		return SliceV{Arr: vm.newArrayObj(e, nil), Len: n, Cap: n}
	}
	// blake2b.Sum256: an uninterpreted injective function.  The digest is rendered as 32
	// bytes that are a (reversible) tag of the input: for concrete inputs the tag is a
	// per-run table index; for symbolic inputs the object identity is kept so that equal
	// digests imply equal inputs (checked structurally by the harness through vHashInput).
	m["golang.org/x/crypto/blake2b.Sum256"] = func(vm *VM, fn *ssa.Function, args []Value) Value {
		in := vm.strFromByteSlice(args[0].(SliceV))
		vm.P.env["blake2b.last"] = in
		e := make([]Value, 32)
		if !in.Sym {
			// concrete input: SHA-256 stands in for BLAKE2b (any collision-free function)
			d := sha256.Sum256([]byte(in.C))
			for i := range e {
				e[i] = mkBV(8, uint64(d[i]))
			}
		} else {
			// symbolic input: uninterpreted output, functional on the identity of the input terms
			key := "blake2b:"
			for _, b := range in.B {
				key += fmt.Sprintf("%d,", b.id)
			}
			if prev, ok := vm.P.env[key]; ok {
				return prev
			}
			for i := range e {
				e[i] = vm.freshVar("h", bvSort(8))
			}
			vm.P.env[key] = &ArrayV{E: e}
		}
		return &ArrayV{E: e}
	}
	m["vocab.vLastHashInput"] = func(vm *VM, fn *ssa.Function, args []Value) Value {
		if v, ok := vm.P.env["blake2b.last"]; ok {
			return v
		}
		return StrV{}
	}
	m["github.com/shirou/gopsutil/v4/mem.VirtualMemory"] = func(vm *VM, fn *ssa.Function, args []Value) Value {
		res := fn.Signature.Results()
		st := res.At(0).Type().(*types.Pointer).Elem()
		val := vm.zero(st).(*StructV)
		// Total is field 0
		tot := mkBV(64, 16<<30)
		if v, ok := vm.P.env["mem.total"]; ok {
			tot = v.(*Term)
		}
		f := append([]Value(nil), val.F...)
		f[0] = tot
		o := vm.newObject(&StructV{F: f}, st, "VirtualMemoryStat")
		return TupleV{PtrV{Obj: o}, IfaceV{}}
	}
	m["vocab.vSetSysMem"] = func(vm *VM, fn *ssa.Function, args []Value) Value {
		vm.P.env["mem.total"] = args[0]
		return nil
	}
}
