package main

// A small model of package reflect, enough for code that walks a struct value field by field
// (config.checkIsSetRecursive): ValueOf, Kind, Elem, Type, NumField, Field, CanAddr, Addr,
// Interface, Type.Field(i) and StructTag.Lookup.  A reflect.Value is represented by ReflV.

import (
	"go/types"
	"reflect"

	"golang.org/x/tools/go/ssa"
)

type ReflV struct {
	T    types.Type
	V    Value // the value itself (set for non-addressable values, e.g. what ValueOf was given)
	Addr PtrV  // where the value lives (addressable values)
}

type ReflT struct{ T types.Type }

func reflKind(t types.Type) uint64 {
	switch u := t.Underlying().(type) {
	case *types.Pointer:
		return uint64(reflect.Pointer)
	case *types.Struct:
		return uint64(reflect.Struct)
	case *types.Slice:
		return uint64(reflect.Slice)
	case *types.Map:
		return uint64(reflect.Map)
	case *types.Interface:
		return uint64(reflect.Interface)
	case *types.Array:
		return uint64(reflect.Array)
	case *types.Signature:
		return uint64(reflect.Func)
	case *types.Chan:
		return uint64(reflect.Chan)
	case *types.Basic:
		switch u.Kind() {
		case types.Bool:
			return uint64(reflect.Bool)
		case types.Int:
			return uint64(reflect.Int)
		case types.Int8:
			return uint64(reflect.Int8)
		case types.Int16:
			return uint64(reflect.Int16)
		case types.Int32:
			return uint64(reflect.Int32)
		case types.Int64:
			return uint64(reflect.Int64)
		case types.Uint:
			return uint64(reflect.Uint)
		case types.Uint8:
			return uint64(reflect.Uint8)
		case types.Uint16:
			return uint64(reflect.Uint16)
		case types.Uint32:
			return uint64(reflect.Uint32)
		case types.Uint64:
			return uint64(reflect.Uint64)
		case types.Uintptr:
			return uint64(reflect.Uintptr)
		case types.Float32:
			return uint64(reflect.Float32)
		case types.Float64:
			return uint64(reflect.Float64)
		case types.String:
			return uint64(reflect.String)
		case types.UnsafePointer:
			return uint64(reflect.UnsafePointer)
		}
	}
	return uint64(reflect.Invalid)
}

func addReflect(m map[string]Intrinsic) {
	rv := func(vm *VM, v Value, what string) ReflV {
		r, ok := v.(ReflV)
		if !ok {
			panic(vm.fail("reflect model: %s on a value the model did not create (%T)", what, v))
		}
		return r
	}
	m["reflect.ValueOf"] = func(vm *VM, fn *ssa.Function, args []Value) Value {
		iv := args[0].(IfaceV)
		t, ok := iv.Dyn.(types.Type)
		if !ok {
			panic(vm.fail("reflect model: ValueOf of a value of a synthetic type"))
		}
		return ReflV{T: t, V: iv.V}
	}
	m["(reflect.Value).Kind"] = func(vm *VM, fn *ssa.Function, args []Value) Value {
		return mkBV(64, reflKind(rv(vm, args[0], "Kind").T))
	}
	m["(reflect.Value).Elem"] = func(vm *VM, fn *ssa.Function, args []Value) Value {
		r := rv(vm, args[0], "Elem")
		pt, ok := r.T.Underlying().(*types.Pointer)
		if !ok {
			panic(vm.fail("reflect model: Elem of a non-pointer %s", r.T))
		}
		var p PtrV
		if r.V != nil {
			p, _ = r.V.(PtrV)
		} else {
			p, _ = vm.load(r.Addr).(PtrV)
		}
		return ReflV{T: pt.Elem(), Addr: p}
	}
	m["(reflect.Value).Type"] = func(vm *VM, fn *ssa.Function, args []Value) Value {
		return IfaceV{Dyn: vm.synType("reflect.Type"), V: ReflT{rv(vm, args[0], "Type").T}}
	}
	m["(reflect.Value).NumField"] = func(vm *VM, fn *ssa.Function, args []Value) Value {
		st, ok := rv(vm, args[0], "NumField").T.Underlying().(*types.Struct)
		if !ok {
			panic(&goPanic{runtime: "reflect: call of reflect.Value.NumField on non-struct Value", where: vm.where()})
		}
		return intV(st.NumFields())
	}
	m["(reflect.Value).Field"] = func(vm *VM, fn *ssa.Function, args []Value) Value {
		r := rv(vm, args[0], "Field")
		st, ok := r.T.Underlying().(*types.Struct)
		if !ok {
			panic(&goPanic{runtime: "reflect: call of reflect.Value.Field on non-struct Value", where: vm.where()})
		}
		i := constInt(vm, args[1], "reflect.Value.Field index")
		if i < 0 || i >= st.NumFields() {
			panic(&goPanic{runtime: "reflect: Field index out of range", where: vm.where()})
		}
		if r.Addr.Obj == nil {
			panic(vm.fail("reflect model: Field of a non-addressable struct"))
		}
		return ReflV{T: st.Field(i).Type(), Addr: ptrField(r.Addr, i)}
	}
	m["(reflect.Value).CanAddr"] = func(vm *VM, fn *ssa.Function, args []Value) Value {
		return mkBool(rv(vm, args[0], "CanAddr").Addr.Obj != nil)
	}
	m["(reflect.Value).Addr"] = func(vm *VM, fn *ssa.Function, args []Value) Value {
		r := rv(vm, args[0], "Addr")
		if r.Addr.Obj == nil {
			panic(&goPanic{runtime: "reflect.Value.Addr of unaddressable value", where: vm.where()})
		}
		return ReflV{T: types.NewPointer(r.T), V: r.Addr}
	}
	m["(reflect.Value).Interface"] = func(vm *VM, fn *ssa.Function, args []Value) Value {
		r := rv(vm, args[0], "Interface")
		v := r.V
		if v == nil {
			v = vm.load(r.Addr)
		}
		return IfaceV{Dyn: r.T, V: v}
	}
	m["syn:reflect.Type.Field"] = func(vm *VM, fn *ssa.Function, args []Value) Value {
		t := args[0].(ReflT).T
		st, ok := t.Underlying().(*types.Struct)
		if !ok {
			panic(&goPanic{runtime: "reflect: Field of non-struct type", where: vm.where()})
		}
		i := constInt(vm, args[1], "reflect.Type.Field index")
		sft := vm.typeByName("reflect", "StructField")
		sf := vm.zero(sft).(*StructV)
		f := append([]Value(nil), sf.F...)
		f[fieldIdx(vm, sft, "Name")] = mkStr(st.Field(i).Name())
		f[fieldIdx(vm, sft, "Tag")] = mkStr(st.Tag(i))
		return &StructV{F: f}
	}
	m["syn:reflect.Type.Name"] = func(vm *VM, fn *ssa.Function, args []Value) Value {
		if n, ok := types.Unalias(args[0].(ReflT).T).(*types.Named); ok {
			return mkStr(n.Obj().Name())
		}
		return mkStr("")
	}
	m["(reflect.StructTag).Lookup"] = func(vm *VM, fn *ssa.Function, args []Value) Value {
		tag := constStr(vm, args[0], "StructTag")
		key := constStr(vm, args[1], "StructTag.Lookup key")
		v, ok := reflect.StructTag(tag).Lookup(key)
		return TupleV{mkStr(v), mkBool(ok)}
	}
	m["(reflect.StructTag).Get"] = func(vm *VM, fn *ssa.Function, args []Value) Value {
		return mkStr(reflect.StructTag(constStr(vm, args[0], "StructTag")).Get(constStr(vm, args[1], "StructTag.Get key")))
	}
}
