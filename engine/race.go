package main

// Happens-before data-race detection (C15) over the explored schedules: vector clocks per
// thread, per lock and per atomic location (FastTrack-style shadow memory per heap object).
// Threads: 1 = the operation under test, 2 = the interposed operation of another request,
// 3.. = goroutines started with `go` (run by vRunPending).  Two accesses to overlapping
// memory of one heap object, at least one a write, by different threads, neither ordered
// before the other by lock release->acquire, atomic store->load or goroutine start, are a
// data race in the sense of the Go memory model.

import (
	"fmt"
	"sort"
	"strings"
)

type vclock map[int]int

func (v vclock) copy() vclock {
	n := vclock{}
	for k, x := range v {
		n[k] = x
	}
	return n
}

func (v vclock) join(o vclock) {
	for k, x := range o {
		if x > v[k] {
			v[k] = x
		}
	}
}

type accessRec struct {
	path   []int
	thread int
	clock  int
	write  bool
	where  string
	fn     string
}

type raceState struct {
	on       bool
	vc       map[int]vclock
	lockW    map[string]vclock // released by writers
	lockR    map[string]vclock // released by readers
	atom     map[string]vclock
	shadow   map[*Object][]accessRec
	forkVC   vclock
	nextTid  int
	reported map[string]bool
}

func (vm *VM) race() *raceState { return vm.P.race }

func (vm *VM) raceBegin() {
	rs := &raceState{on: true, vc: map[int]vclock{}, lockW: map[string]vclock{}, lockR: map[string]vclock{},
		atom: map[string]vclock{}, shadow: map[*Object][]accessRec{}, nextTid: 3, reported: map[string]bool{}}
	rs.vc[1] = vclock{1: 1}
	rs.forkVC = rs.vc[1].copy()
	rs.vc[1][1]++
	vm.P.race = rs
}

func (rs *raceState) clockOf(t int) vclock {
	if c, ok := rs.vc[t]; ok {
		return c
	}
	c := rs.forkVC.copy()
	c[t] = 1
	rs.vc[t] = c
	return c
}

func pathOverlap(a, b []int) bool {
	n := len(a)
	if len(b) < n {
		n = len(b)
	}
	for i := 0; i < n; i++ {
		if a[i] != b[i] {
			return false
		}
	}
	return true
}

func (vm *VM) noteAccess(p PtrV, write bool) {
	rs := vm.P.race
	if rs == nil || !rs.on || p.Obj == nil || vm.inInit {
		return
	}
	t := vm.P.curThread
	my := rs.clockOf(t)
	recs := rs.shadow[p.Obj]
	for _, r := range recs {
		if r.thread == t || (!r.write && !write) || !pathOverlap(r.path, p.Path) {
			continue
		}
		vm.P.Oblig++ // one conflicting cross-thread pair: must be ordered by happens-before
		if r.clock <= my[r.thread] {
			vm.P.Discharged++
			continue // ordered before this access
		}
		vm.P.Oblig-- // reportRace counts the obligation of a new race itself
		vm.reportRace(p, r, write)
	}
	// record (keep the latest access per thread/kind/path)
	nr := accessRec{path: append([]int(nil), p.Path...), thread: t, clock: my[t], write: write, where: vm.where(), fn: vm.curFnName()}
	out := recs[:0:0]
	for _, r := range recs {
		if r.thread == t && r.write == write && len(r.path) == len(nr.path) && pathOverlap(r.path, nr.path) {
			continue
		}
		out = append(out, r)
	}
	rs.shadow[p.Obj] = append(out, nr)
}

func (vm *VM) curFnName() string {
	if vm.cur == nil {
		return "?"
	}
	f := vm.cur.fn
	for f.Parent() != nil {
		f = f.Parent()
	}
	n := f.String()
	// strip type arguments so that ids do not depend on the instantiation
	for {
		i := strings.Index(n, "[")
		j := strings.Index(n, "]")
		if i < 0 || j < i {
			break
		}
		n = n[:i] + n[j+1:]
	}
	return n
}

func (vm *VM) reportRace(p PtrV, prev accessRec, write bool) {
	rs := vm.P.race
	lbl := vm.ptrLabel(PtrV{Obj: p.Obj, Path: longer(p.Path, prev.path)})
	for {
		i := strings.Index(lbl, "[")
		j := strings.Index(lbl, "]")
		if i < 0 || j < i {
			break
		}
		lbl = lbl[:i] + lbl[j+1:]
	}
	a := fmt.Sprintf("%s(%s)", prev.fn, rw(prev.write))
	b := fmt.Sprintf("%s(%s)", vm.curFnName(), rw(write))
	pair := []string{a, b}
	sort.Strings(pair)
	id := "c15.race " + lbl + ": " + pair[0] + " / " + pair[1]
	if rs.reported[id] {
		return
	}
	rs.reported[id] = true
	vm.P.Oblig++
	vm.recordViolation(id, fmt.Sprintf("unsynchronised %s at %s conflicts with %s at %s (threads %d and %d, no happens-before)",
		rw(prev.write), prev.where, rw(write), vm.where(), prev.thread, vm.P.curThread), tTrue)
}

func longer(a, b []int) []int {
	if len(a) >= len(b) {
		return a
	}
	return b
}

func rw(w bool) string {
	if w {
		return "write"
	}
	return "read"
}

// lock edges
func (vm *VM) raceAcquire(key string, writeLock bool) {
	rs := vm.P.race
	if rs == nil || !rs.on {
		return
	}
	my := rs.clockOf(vm.P.curThread)
	if c, ok := rs.lockW[key]; ok {
		my.join(c)
	}
	if writeLock {
		if c, ok := rs.lockR[key]; ok {
			my.join(c)
		}
	}
}

func (vm *VM) raceRelease(key string, writeLock bool) {
	rs := vm.P.race
	if rs == nil || !rs.on {
		return
	}
	t := vm.P.curThread
	my := rs.clockOf(t)
	m := rs.lockW
	if !writeLock {
		m = rs.lockR
	}
	if c, ok := m[key]; ok {
		c.join(my)
	} else {
		m[key] = my.copy()
	}
	my[t]++
}

func (vm *VM) atomicHB(p PtrV, write bool) {
	rs := vm.P.race
	if rs == nil || !rs.on || p.Obj == nil {
		return
	}
	t := vm.P.curThread
	my := rs.clockOf(t)
	key := vm.lockKey(p)
	if c, ok := rs.atom[key]; ok {
		my.join(c) // every atomic access observes earlier atomic writes of that location
	}
	if write {
		if c, ok := rs.atom[key]; ok {
			c.join(my)
		} else {
			rs.atom[key] = my.copy()
		}
		my[t]++
	}
}
