package main

// Stubs for the cryptographic library calls of proxy/certs (C11): cryptography is trusted,
// what reservoir hands to it is captured for the harness.

import (
	"fmt"
	"net"
	"go/types"

	"golang.org/x/tools/go/ssa"
)

func init() { extraIntrinsics = append(extraIntrinsics, addCrypto) }

var extraIntrinsics []func(map[string]Intrinsic)

func addCrypto(m map[string]Intrinsic) {
	newOpaque := func(vm *VM, fn *ssa.Function, idx int) PtrV {
		rt := fn.Signature.Results().At(idx).Type()
		if p, ok := rt.Underlying().(*types.Pointer); ok {
			return vm.newStruct(p.Elem(), fn.Name())
		}
		panic(vm.fail("newOpaque: result %d of %s is not a pointer", idx, fn))
	}
	m["crypto/elliptic.P256"] = func(vm *VM, fn *ssa.Function, args []Value) Value {
		return IfaceV{Dyn: vm.synType("elliptic.Curve"), V: mkStr("P256")}
	}
	m["crypto/ecdsa.GenerateKey"] = func(vm *VM, fn *ssa.Function, args []Value) Value {
		if vm.P.env["fault.genkey"] != nil && vm.chooseLogged(2) == 1 {
			return TupleV{PtrV{}, vm.newErrorStr("ecdsa: key generation failed")}
		}
		k := newOpaque(vm, fn, 0)
		vm.P.env["c11.key"] = k
		vm.bumpMarker("c11.genkey")
		return TupleV{k, IfaceV{}}
	}
	m["math/big.NewInt"] = func(vm *VM, fn *ssa.Function, args []Value) Value { return newOpaque(vm, fn, 0) }
	m["(*math/big.Int).Lsh"] = func(vm *VM, fn *ssa.Function, args []Value) Value { return args[0] }
	m["crypto/rand.Int"] = func(vm *VM, fn *ssa.Function, args []Value) Value {
		return TupleV{newOpaque(vm, fn, 0), IfaceV{}}
	}
	m["net.ParseIP"] = func(vm *VM, fn *ssa.Function, args []Value) Value {
		// a concrete text is parsed for real; for a symbolic one the textual IP grammar is not
		// encoded: nil or an opaque 16-byte address
		if sv, ok := args[0].(StrV); ok && !sv.Sym && !sv.Opaque() {
			ip := net.ParseIP(sv.C)
			if ip == nil {
				vm.P.env["c11.isip"] = tFalse
				return SliceV{}
			}
			vm.P.env["c11.isip"] = tTrue
			return vm.byteSliceFromStr(mkStr(string(ip)))
		}
		if vm.chooseLogged(2) == 0 {
			vm.P.env["c11.isip"] = tFalse
			return SliceV{}
		}
		vm.P.env["c11.isip"] = tTrue
		return vm.makeSlice(types.Typ[types.Uint8], 16, 16)
	}
	m["crypto/x509.CreateCertificate"] = func(vm *VM, fn *ssa.Function, args []Value) Value {
		// (rand, template, parent *Certificate, pub, priv any)
		tmpl := args[1].(PtrV)
		snap := PtrV{Obj: vm.newObject(vm.load(tmpl), tmpl.Obj.Typ, "x509.Certificate(template)")}
		vm.P.env["c11.template"] = snap
		vm.P.env["c11.parent"] = args[2]
		vm.P.env["c11.pub"] = args[3]
		vm.P.env["c11.priv"] = args[4]
		vm.bumpMarker("c11.createcert")
		// the encodings are opaque, but each byte slice remembers what it encodes (by identity
		// of its backing array), so that X509KeyPair can do what the real one does: take the
		// certificate and the key apart again and refuse a key that is not the certificate's
		der := vm.byteSliceFromStr(mkStr("DER"))
		vm.P.env[fmt.Sprintf("c11.enc:%d", der.Arr.ID)] = TupleV{snap, args[3]}
		return TupleV{der, IfaceV{}}
	}
	m["crypto/x509.MarshalPKCS8PrivateKey"] = func(vm *VM, fn *ssa.Function, args []Value) Value {
		vm.P.env["c11.marshalledkey"] = args[0]
		b := vm.byteSliceFromStr(mkStr("PKCS8"))
		vm.P.env[fmt.Sprintf("c11.enc:%d", b.Arr.ID)] = TupleV{args[0]}
		return TupleV{b, IfaceV{}}
	}
	m["encoding/pem.EncodeToMemory"] = func(vm *VM, fn *ssa.Function, args []Value) Value {
		out := vm.byteSliceFromStr(mkStr("PEM"))
		if blk, ok := args[0].(PtrV); ok && blk.Obj != nil {
			if inner, ok := vm.getF(blk, "Bytes").(SliceV); ok && inner.Arr != nil {
				if what, ok := vm.P.env[fmt.Sprintf("c11.enc:%d", inner.Arr.ID)]; ok {
					vm.P.env[fmt.Sprintf("c11.enc:%d", out.Arr.ID)] = what
				}
			}
		}
		return out
	}
	m["crypto/tls.X509KeyPair"] = func(vm *VM, fn *ssa.Function, args []Value) Value {
		ct := fn.Signature.Results().At(0).Type()
		c := vm.zero(ct).(*StructV)
		f := append([]Value(nil), c.F...)
		li := fieldIdx(vm, ct, "Leaf")
		certPEM, okc := args[0].(SliceV)
		keyPEM, okk := args[1].(SliceV)
		if okc && okk && certPEM.Arr != nil && keyPEM.Arr != nil {
			cw, ok1 := vm.P.env[fmt.Sprintf("c11.enc:%d", certPEM.Arr.ID)].(TupleV)
			kw, ok2 := vm.P.env[fmt.Sprintf("c11.enc:%d", keyPEM.Arr.ID)].(TupleV)
			if ok1 && ok2 && len(cw) == 2 && len(kw) == 1 {
				f[li] = cw[0]
				// documented: "the private key must match the certificate's public key"
				pub, isIface := cw[1].(IfaceV)
				key, isKey := kw[0].(IfaceV)
				if isIface && isKey {
					pp, ok3 := pub.V.(PtrV)
					kp, ok4 := key.V.(PtrV)
					if ok3 && ok4 && pp.Obj != kp.Obj {
						return TupleV{vm.zero(ct), vm.newErrorStr("tls: private key does not match public key")}
					}
				}
				return TupleV{&StructV{F: f}, IfaceV{}}
			}
		}
		if t, ok := vm.P.env["c11.template"]; ok {
			f[li] = t
		}
		return TupleV{&StructV{F: f}, IfaceV{}}
	}
	m["vocab.vC11Template"] = func(vm *VM, fn *ssa.Function, args []Value) Value {
		if t, ok := vm.P.env["c11.template"]; ok {
			return t
		}
		return PtrV{}
	}
	m["vocab.vC11Args"] = func(vm *VM, fn *ssa.Function, args []Value) Value {
		get := func(k string) Value {
			if v, ok := vm.P.env[k]; ok {
				return v
			}
			return IfaceV{}
		}
		par, _ := get("c11.parent").(PtrV)
		return TupleV{par, get("c11.pub"), get("c11.priv"), get("c11.marshalledkey")}
	}
	m["vocab.vC11Key"] = func(vm *VM, fn *ssa.Function, args []Value) Value {
		if t, ok := vm.P.env["c11.key"]; ok {
			return t
		}
		return PtrV{}
	}
	m["vocab.vC11IsIP"] = func(vm *VM, fn *ssa.Function, args []Value) Value {
		if t, ok := vm.P.env["c11.isip"]; ok {
			return t
		}
		return tFalse
	}
}
