package main

// Stubs for the cryptographic library calls of proxy/certs (C11): cryptography is trusted,
// what reservoir hands to it is captured for the harness.

import (
	"net"
	"go/types"

	"golang.org/x/tools/go/ssa"
)

func init() { extraIntrinsics = append(extraIntrinsics, addCrypto) }

var extraIntrinsics []func(map[string]Intrinsic)

func addCrypto(m map[string]Intrinsic) {
	newOpaque := func(vm *VM, fn *ssa.Function, idx int) PtrV {
		rt := fn.Signature.Results().At(idx).Type()
		if p, ok := rt.Underlying().(*types.Pointer); ok {
			return vm.newStruct(p.Elem(), fn.Name())
		}
		panic(vm.fail("newOpaque: result %d of %s is not a pointer", idx, fn))
	}
	m["crypto/elliptic.P256"] = func(vm *VM, fn *ssa.Function, args []Value) Value {
		return IfaceV{Dyn: vm.synType("elliptic.Curve"), V: mkStr("P256")}
	}
	m["crypto/ecdsa.GenerateKey"] = func(vm *VM, fn *ssa.Function, args []Value) Value {
		if vm.P.env["fault.genkey"] != nil && vm.chooseLogged(2) == 1 {
			return TupleV{PtrV{}, vm.newErrorStr("ecdsa: key generation failed")}
		}
		k := newOpaque(vm, fn, 0)
		vm.P.env["c11.key"] = k
		vm.bumpMarker("c11.genkey")
		return TupleV{k, IfaceV{}}
	}
	m["math/big.NewInt"] = func(vm *VM, fn *ssa.Function, args []Value) Value { return newOpaque(vm, fn, 0) }
	m["(*math/big.Int).Lsh"] = func(vm *VM, fn *ssa.Function, args []Value) Value { return args[0] }
	m["crypto/rand.Int"] = func(vm *VM, fn *ssa.Function, args []Value) Value {
		return TupleV{newOpaque(vm, fn, 0), IfaceV{}}
	}
	m["net.ParseIP"] = func(vm *VM, fn *ssa.Function, args []Value) Value {
		// a concrete text is parsed for real; for a symbolic one the textual IP grammar is not
		// encoded: nil or an opaque 16-byte address
		if sv, ok := args[0].(StrV); ok && !sv.Sym && !sv.Opaque() {
			ip := net.ParseIP(sv.C)
			if ip == nil {
				vm.P.env["c11.isip"] = tFalse
				return SliceV{}
			}
			vm.P.env["c11.isip"] = tTrue
			return vm.byteSliceFromStr(mkStr(string(ip)))
		}
		if vm.chooseLogged(2) == 0 {
			vm.P.env["c11.isip"] = tFalse
			return SliceV{}
		}
		vm.P.env["c11.isip"] = tTrue
		return vm.makeSlice(types.Typ[types.Uint8], 16, 16)
	}
	m["crypto/x509.CreateCertificate"] = func(vm *VM, fn *ssa.Function, args []Value) Value {
		// (rand, template, parent *Certificate, pub, priv any)
		tmpl := args[1].(PtrV)
		snap := PtrV{Obj: vm.newObject(vm.load(tmpl), tmpl.Obj.Typ, "x509.Certificate(template)")}
		vm.P.env["c11.template"] = snap
		vm.P.env["c11.parent"] = args[2]
		vm.P.env["c11.pub"] = args[3]
		vm.P.env["c11.priv"] = args[4]
		vm.bumpMarker("c11.createcert")
		return TupleV{vm.byteSliceFromStr(mkStr("DER")), IfaceV{}}
	}
	m["crypto/x509.MarshalPKCS8PrivateKey"] = func(vm *VM, fn *ssa.Function, args []Value) Value {
		vm.P.env["c11.marshalledkey"] = args[0]
		return TupleV{vm.byteSliceFromStr(mkStr("PKCS8")), IfaceV{}}
	}
	m["encoding/pem.EncodeToMemory"] = func(vm *VM, fn *ssa.Function, args []Value) Value {
		return vm.byteSliceFromStr(mkStr("PEM"))
	}
	m["crypto/tls.X509KeyPair"] = func(vm *VM, fn *ssa.Function, args []Value) Value {
		ct := fn.Signature.Results().At(0).Type()
		c := vm.zero(ct).(*StructV)
		f := append([]Value(nil), c.F...)
		li := fieldIdx(vm, ct, "Leaf")
		if t, ok := vm.P.env["c11.template"]; ok {
			f[li] = t
		}
		return TupleV{&StructV{F: f}, IfaceV{}}
	}
	m["vocab.vC11Template"] = func(vm *VM, fn *ssa.Function, args []Value) Value {
		if t, ok := vm.P.env["c11.template"]; ok {
			return t
		}
		return PtrV{}
	}
	m["vocab.vC11Args"] = func(vm *VM, fn *ssa.Function, args []Value) Value {
		get := func(k string) Value {
			if v, ok := vm.P.env[k]; ok {
				return v
			}
			return IfaceV{}
		}
		par, _ := get("c11.parent").(PtrV)
		return TupleV{par, get("c11.pub"), get("c11.priv"), get("c11.marshalledkey")}
	}
	m["vocab.vC11Key"] = func(vm *VM, fn *ssa.Function, args []Value) Value {
		if t, ok := vm.P.env["c11.key"]; ok {
			return t
		}
		return PtrV{}
	}
	m["vocab.vC11IsIP"] = func(vm *VM, fn *ssa.Function, args []Value) Value {
		if t, ok := vm.P.env["c11.isip"]; ok {
			return t
		}
		return tFalse
	}
}
