package main

// Path exploration: decision-prefix replay DFS, parallel workers, obligations.

import (
	"fmt"
	"sort"
	"strings"
	"sync"
	"time"

	"golang.org/x/tools/go/ssa"
)

type RunConfig struct {
	Unwind        int
	MaxConcretize int
	PermuteMaps   bool
	Workers       int
	SolverBin     string
	QueryTimeout  int // ms
	MaxPaths      int
	Params        map[string]int
	Tier          string
	Deadline      time.Time
	NoMerge       bool
	Concrete      []NondetVal // when non-nil: concrete replay of a recorded case
	Verbose       bool
}

type NondetVal struct {
	Kind string `json:"kind"`
	// value forms
	Int   int64   `json:"int,omitempty"`
	Uint  uint64  `json:"uint,omitempty"`
	Bool  bool    `json:"bool,omitempty"`
	Bytes []byte  `json:"bytes,omitempty"`
	Str   *string `json:"str,omitempty"`
	Label string  `json:"label,omitempty"`
}

type nondetRec struct {
	kind  string
	label string
	terms []*Term // the symbolic variables making up the value
	choice int
	width int
}

type Violation struct {
	ID        string      `json:"id"`
	Harness   string      `json:"harness"`
	Detail    string      `json:"detail"`
	Where     string      `json:"where"`
	Case      []NondetVal `json:"case"`
	Decisions []int32     `json:"decisions"`
	Trace     []string    `json:"trace,omitempty"`
}

type PathState struct {
	prefix    []int32
	pos       int
	decisions []int32
	nondets   []nondetRec
	reach     map[string]bool
	Steps     int
	Merges    int
	Oblig     int
	Discharged int
	viols     []*Violation
	notes     []string
	varN      int
	lastNow   *Term
	unknown   bool
	touched   map[string]bool // functions executed
	pending   []*pendingGo
	parked    []*coro
	nextTid   int
	conc        *coro
	concBudget  int
	concDone    bool
	concJoining bool
	gorPreempt  int
	trace     []string
	concPos   int
	env       map[string]Value // scratch for models (per-path)
	locks     map[string]*lockState
	heldOrder []string
	lockEvents []lockEvent
	names     map[string]string
	facts     map[string]bool
	fs        *FSModel
	routes    []route
	overrides map[string]Value
	lockMonitor string
	interpose   Value
	interposeBudget int
	interposeAtomics bool
	interposedAt []string
	curThread   int
	thread2Held []string
	inSchedPoint bool
	race        *raceState
	onLock      Value
	inHook      bool
}

func newPathState(prefix []int32) *PathState {
	return &PathState{prefix: prefix, reach: map[string]bool{}, touched: map[string]bool{}, env: map[string]Value{},
		locks: map[string]*lockState{}, names: map[string]string{}, facts: map[string]bool{}, overrides: map[string]Value{}, curThread: 1}
}

type workItem struct{ prefix []int32 }

type Explorer struct {
	ld      *Loaded
	entry   *ssa.Function
	cfg     *RunConfig
	mu      sync.Mutex
	cond    *sync.Cond
	stack   []workItem
	active  int
	stopped bool

	// aggregated results
	Paths       int
	PathsWithOb int
	Branches    int
	Steps       int64
	Oblig       int
	Discharged  int
	Queries     int
	SolverTime  time.Duration
	Unknowns    int
	Viol        map[string][]*Violation
	ViolCount   map[string]int
	Reach       map[string]int
	Notes       map[string]int
	Funcs       map[string]bool
	Errors      []string
	Samples     []string
	EndReasons  map[string]int
	Truncated   bool
	InitWarnings map[string]int
	ForkSites    map[string]int
	Traces       []string
}

func NewExplorer(ld *Loaded, entry *ssa.Function, cfg *RunConfig) *Explorer {
	ex := &Explorer{ld: ld, entry: entry, cfg: cfg,
		Viol: map[string][]*Violation{}, ViolCount: map[string]int{}, Reach: map[string]int{},
		Notes: map[string]int{}, Funcs: map[string]bool{}, EndReasons: map[string]int{}, InitWarnings: map[string]int{}}
	ex.cond = sync.NewCond(&ex.mu)
	return ex
}

func (ex *Explorer) push(p []int32) {
	ex.mu.Lock()
	ex.stack = append(ex.stack, workItem{p})
	ex.mu.Unlock()
	ex.cond.Signal()
}

func (ex *Explorer) pop() (workItem, bool) {
	ex.mu.Lock()
	defer ex.mu.Unlock()
	for {
		if ex.stopped {
			return workItem{}, false
		}
		if n := len(ex.stack); n > 0 {
			it := ex.stack[n-1]
			ex.stack = ex.stack[:n-1]
			ex.active++
			return it, true
		}
		if ex.active == 0 {
			ex.cond.Broadcast()
			return workItem{}, false
		}
		ex.cond.Wait()
	}
}

func (ex *Explorer) done() {
	ex.mu.Lock()
	ex.active--
	if ex.active == 0 && len(ex.stack) == 0 {
		ex.cond.Broadcast()
	}
	ex.mu.Unlock()
}

func (ex *Explorer) stop(err string) {
	ex.mu.Lock()
	if err != "" {
		ex.Errors = append(ex.Errors, err)
	}
	ex.stopped = true
	ex.mu.Unlock()
	ex.cond.Broadcast()
}

func (ex *Explorer) Run() {
	ex.stack = append(ex.stack, workItem{nil})
	var wg sync.WaitGroup
	nw := ex.cfg.Workers
	if nw < 1 {
		nw = 1
	}
	for w := 0; w < nw; w++ {
		wg.Add(1)
		go func(w int) {
			defer wg.Done()
			vm, err := NewVM(ex.ld, ex.cfg, ex, w)
			if err != nil {
				ex.stop("worker init: " + err.Error())
				return
			}
			defer func() {
				ex.mu.Lock()
				ex.Queries += vm.solver.Queries
				ex.SolverTime += vm.solver.Time
				for _, e := range vm.solver.Errors {
					if strings.Contains(e, "canceled") {
						continue // a timeout artefact: the process was restarted and the query re-decided one-shot
					}
					if len(ex.Errors) < 20 {
						ex.Errors = append(ex.Errors, "solver: "+e)
					}
				}
				ex.mu.Unlock()
				vm.solver.Close()
			}()
			ex.mu.Lock()
			for k, v := range vm.initWarnings {
				ex.InitWarnings[k] = v
			}
			ex.mu.Unlock()
			for {
				it, ok := ex.pop()
				if !ok {
					return
				}
				vm.runPath(ex.entry, it.prefix)
				ex.done()
				if !ex.cfg.Deadline.IsZero() && time.Now().After(ex.cfg.Deadline) {
					ex.mu.Lock()
					ex.Truncated = true
					ex.mu.Unlock()
					ex.stop("deadline reached before the path space was exhausted")
					return
				}
			}
		}(w)
	}
	wg.Wait()
}

// ---- per-path execution ----

func (vm *VM) runPath(entry *ssa.Function, prefix []int32) {
	P := newPathState(prefix)
	vm.P = P
	vm.epoch = 1
	vm.undo = vm.undo[:0]
	vm.panicStack = nil
	vm.depth = 0
	vm.cur = nil
	vm.resetModels()
	vm.afterFuncs = map[*Object][]*afterFuncRec{}
	vm.watch = nil
	vm.solver.BeginPath()
	reason := "complete"
	func() {
		defer func() {
			r := recover()
			if r == nil {
				return
			}
			switch e := r.(type) {
			case *pathEnd:
				reason = e.reason
			case *blockedSignal:
				reason = "blocked: " + e.what
			case *goPanic:
				reason = "uncaught-panic"
				vm.recordViolation("uncaught-panic", e.String(), tTrue)
			case *engineError:
				reason = "engine-error"
				vm.ex.stop(e.msg)
			default:
				reason = "engine-crash"
				vm.ex.stop(fmt.Sprintf("engine crash: %v\n%s", r, stackTrace()))
			}
		}()
		vm.callFunction(entry, nil, nil)
	}()
	vm.abortCoros()
	vm.co = nil
	// a concrete witness of this path for the evidence samples (first few paths only)
	sample := ""
	if vm.cfg.Concrete == nil && reason != "engine-error" && reason != "engine-crash" && (P.Oblig > 0 || len(P.reach) > 0) {
		vm.ex.mu.Lock()
		need := len(vm.ex.Samples) < 6
		vm.ex.mu.Unlock()
		if need {
			if res, vals := vm.solver.ModelWith(tTrue, vm.nondetTerms()); res == Sat {
				v := &Violation{Case: vm.caseFromModel(vals)}
				sample = caseSummary(v)
			}
		}
	}
	// restore heap
	for i := len(vm.undo) - 1; i >= 0; i-- {
		vm.undo[i].o.Val = vm.undo[i].old
	}
	vm.undo = vm.undo[:0]
	vm.epoch = 0
	vm.solver.EndPath()

	ex := vm.ex
	ex.mu.Lock()
	ex.Paths++
	if P.Oblig > 0 {
		ex.PathsWithOb++
	}
	ex.Branches += len(P.decisions)
	ex.Steps += int64(P.Steps)
	ex.Oblig += P.Oblig
	ex.Discharged += P.Discharged
	ex.EndReasons[reason]++
	if vm.cfg.Concrete != nil {
		ex.Traces = append(ex.Traces, P.trace...)
	}
	for l := range P.reach {
		ex.Reach[l]++
	}
	for f := range P.touched {
		ex.Funcs[f] = true
	}
	for _, n := range P.notes {
		ex.Notes[n]++
	}
	for _, v := range P.viols {
		ex.ViolCount[v.ID]++
		if len(ex.Viol[v.ID]) < 3 {
			ex.Viol[v.ID] = append(ex.Viol[v.ID], v)
		}
	}
	if P.unknown {
		ex.Unknowns++
	}
	if len(ex.Samples) < 6 && (P.Oblig > 0 || len(P.reach) > 0) {
		d := vm.describePath(reason)
		if sample != "" {
			d += " witness-inputs=[" + sample + "]"
		}
		ex.Samples = append(ex.Samples, d)
	}
	if ex.cfg.MaxPaths > 0 && ex.Paths >= ex.cfg.MaxPaths && !ex.stopped {
		ex.Truncated = true
		ex.stopped = true
		ex.Errors = append(ex.Errors, fmt.Sprintf("path budget %d exhausted", ex.cfg.MaxPaths))
		ex.cond.Broadcast()
	}
	ex.mu.Unlock()
}

func (vm *VM) describePath(reason string) string {
	var sb strings.Builder
	fmt.Fprintf(&sb, "decisions=%v end=%s", vm.P.decisions, reason)
	if len(vm.P.reach) > 0 {
		var ls []string
		for l := range vm.P.reach {
			ls = append(ls, l)
		}
		sort.Strings(ls)
		fmt.Fprintf(&sb, " reach=%v", ls)
	}
	fmt.Fprintf(&sb, " nondets=%d obligations=%d", len(vm.P.nondets), vm.P.Oblig)
	return sb.String()
}

// ---- forking ----

// fork picks one of the alternatives (each guarded by a condition).  Returns -1 if none is
// feasible.  exhaustive: the conditions are known to cover every case under the path
// condition (saves the last query).
func (vm *VM) fork(conds []*Term, exhaustive bool) int {
	P := vm.P
	if vm.cfg.Concrete != nil {
		for i, c := range conds {
			if c.isTrue() {
				return i
			}
			if !c.IsConst() {
				panic(vm.fail("symbolic condition during concrete replay"))
			}
		}
		return -1
	}
	// all-constant fast path (no decision recorded)
	allConst := true
	for _, c := range conds {
		if !c.IsConst() {
			allConst = false
			break
		}
	}
	if allConst {
		nTrue, first := 0, -1
		for i, c := range conds {
			if c.isTrue() {
				nTrue++
				if first < 0 {
					first = i
				}
			}
		}
		if nTrue <= 1 {
			return first
		}
		// a pure nondeterministic choice among several enabled alternatives
	}
	if P.pos < len(P.prefix) {
		k := int(P.prefix[P.pos])
		P.pos++
		P.decisions = append(P.decisions, int32(k))
		if k < 0 {
			return -1
		}
		vm.solver.Assert(conds[k])
		return k
	}
	var feas []int
	unknownSeen := false
	for i, c := range conds {
		if c.isFalse() {
			continue
		}
		if c.isTrue() {
			feas = append(feas, i)
			continue
		}
		if exhaustive && len(feas) == 0 && i == lastNonFalse(conds) {
			feas = append(feas, i)
			continue
		}
		switch vm.solver.CheckWith(c) {
		case Sat:
			feas = append(feas, i)
		case Unknown:
			unknownSeen = true
			feas = append(feas, i)
		}
	}
	if unknownSeen {
		P.unknown = true
	}
	if len(feas) == 0 {
		P.decisions = append(P.decisions, -1)
		P.pos++
		return -1
	}
	if len(feas) > 1 && vm.cfg.Verbose {
		vm.ex.mu.Lock()
		if vm.ex.ForkSites == nil {
			vm.ex.ForkSites = map[string]int{}
		}
		vm.ex.ForkSites[vm.where()] += len(feas) - 1
		vm.ex.mu.Unlock()
	}
	base := append([]int32(nil), P.decisions...)
	for _, k := range feas[1:] {
		alt := make([]int32, len(base)+1)
		copy(alt, base)
		alt[len(base)] = int32(k)
		vm.ex.push(alt)
	}
	k := feas[0]
	P.decisions = append(P.decisions, int32(k))
	P.pos++
	vm.solver.Assert(conds[k])
	return k
}

func lastNonFalse(conds []*Term) int {
	for i := len(conds) - 1; i >= 0; i-- {
		if !conds[i].isFalse() {
			return i
		}
	}
	return -1
}

func (vm *VM) branch(c *Term) bool {
	if c.IsConst() {
		return c.BoolVal()
	}
	k := vm.fork([]*Term{c, mkNot(c)}, true)
	if k < 0 {
		panic(&pathEnd{"infeasible"})
	}
	return k == 0
}

func (vm *VM) choose(n int) int {
	if n <= 1 {
		return 0
	}
	if vm.cfg.Concrete != nil {
		panic(vm.fail("unlogged choice during concrete replay"))
	}
	conds := make([]*Term, n)
	for i := range conds {
		conds[i] = tTrue
	}
	k := vm.fork(conds, true)
	return k
}

func (vm *VM) assume(c *Term) {
	if c.isTrue() {
		return
	}
	if c.isFalse() {
		panic(&pathEnd{"assume-false"})
	}
	if vm.fork([]*Term{c}, false) < 0 {
		panic(&pathEnd{"assume-infeasible"})
	}
}

// ---- nondeterministic inputs ----

func (vm *VM) freshVar(prefix string, s Sort) *Term {
	vm.P.varN++
	return mkVar(fmt.Sprintf("%s_%d", prefix, vm.P.varN), s)
}

func (vm *VM) nextConcrete(kind string) NondetVal {
	if vm.P.concPos >= len(vm.cfg.Concrete) {
		panic(vm.fail("concrete replay: case exhausted (want %s)", kind))
	}
	v := vm.cfg.Concrete[vm.P.concPos]
	vm.P.concPos++
	if v.Kind != kind {
		panic(vm.fail("concrete replay: case entry %d is %s, harness asks %s", vm.P.concPos-1, v.Kind, kind))
	}
	return v
}

// ---- obligations ----

func (vm *VM) nondetTerms() []*Term {
	var ts []*Term
	for _, n := range vm.P.nondets {
		ts = append(ts, n.terms...)
	}
	return ts
}

func (vm *VM) caseFromModel(vals []*Term) []NondetVal {
	var out []NondetVal
	i := 0
	for _, n := range vm.P.nondets {
		nv := NondetVal{Kind: n.kind, Label: n.label}
		switch n.kind {
		case "choice":
			nv.Int = int64(n.choice)
		case "bool":
			nv.Bool = vals[i].BoolVal()
			i++
		case "int":
			nv.Int = vals[i].Int()
			nv.Uint = vals[i].Uint()
			i++
		case "string", "bytes":
			b := make([]byte, len(n.terms))
			for j := range n.terms {
				b[j] = byte(vals[i].K)
				i++
			}
			nv.Bytes = b
			s := string(b)
			nv.Str = &s
		default:
			i += len(n.terms)
		}
		out = append(out, nv)
	}
	return out
}

func (vm *VM) recordViolation(id, detail string, extra *Term) {
	terms := vm.nondetTerms()
	var cs []NondetVal
	if vm.cfg.Concrete == nil {
		res, vals := vm.solver.ModelWith(extra, terms)
		if res == Sat {
			cs = vm.caseFromModel(vals)
		}
	} else {
		cs = vm.cfg.Concrete
	}
	v := &Violation{ID: id, Harness: vm.ex.entry.String(), Detail: detail, Where: vm.where(), Case: cs,
		Decisions: append([]int32(nil), vm.P.decisions...), Trace: append([]string(nil), vm.P.trace...)}
	vm.P.viols = append(vm.P.viols, v)
}

func (vm *VM) obligation(c *Term, id string) {
	P := vm.P
	P.Oblig++
	if c.isTrue() {
		P.Discharged++
		return
	}
	if vm.cfg.Concrete != nil {
		if !c.IsConst() {
			panic(vm.fail("symbolic obligation during concrete replay"))
		}
		vm.recordViolation(id, "assertion violated (concrete replay)", tTrue)
		panic(&pathEnd{"violation"})
	}
	neg := mkNot(c)
	switch vm.solver.CheckWith(neg) {
	case Unsat:
		P.Discharged++
		return
	case Unknown:
		P.unknown = true
		vm.ex.mu.Lock()
		vm.ex.Errors = append(vm.ex.Errors, "solver returned unknown for obligation "+id)
		vm.ex.mu.Unlock()
		return
	}
	vm.recordViolation(id, "assertion can be violated", neg)
	// exploration continues without assuming c, so that later obligations of the same path
	// are still evaluated (they are judged on their own)
}
