package main

// Goroutines, channels and select.
//
// Sequential mode (default): a `go` statement queues the goroutine; the harness decides with
// runPending()/dropPending() whether queued goroutines run (to completion, one after the
// other) or are discarded.  A goroutine that would block forever is parked (abandoned) and a
// NOTE is recorded; the main thread blocking is a "blocked" outcome.

import (
	"go/types"

	"golang.org/x/tools/go/ssa"
)

type Threads struct{}

type pendingGo struct {
	tid    int
	vc     vclock
	fn     *FuncV
	args   []Value
	invoke *ssa.CallCommon
	recv   Value
	label  string
}

// blockedSignal unwinds a goroutine that cannot make progress in sequential mode.
type blockedSignal struct{ what string }


// schedPoint: a place where another thread may run.  With an interposed operation registered
// (vInterpose) and budget left, the engine forks here: either the registered operation of a
// second thread runs now, atomically and to completion, or not.  An operation that would have
// to wait for a lock the main thread holds is not enabled at this point (that branch ends;
// the sibling branch offers the later scheduling points).  This explores every placement of
// one atomic operation of a second thread at the lock / atomic / file-system boundaries of
// the operation under test.
func (vm *VM) schedPoint(what string) {
	P := vm.P
	if P.interpose == nil || P.interposeBudget <= 0 || P.curThread != 1 || vm.inInit || P.inSchedPoint {
		return
	}
	if what == "atomic" && !P.interposeAtomics {
		return
	}
	if vm.chooseLogged(2) == 0 {
		return
	}
	P.interposeBudget--
	P.interposedAt = append(P.interposedAt, what+" @ "+vm.where())
	savedHeld := P.heldOrder
	savedCur, savedDepth := vm.cur, vm.depth
	P.heldOrder = nil
	P.curThread = 2
	func() {
		defer func() {
			if r := recover(); r != nil {
				if _, ok := r.(*blockedSignal); ok {
					panic(&pathEnd{"interposed-operation-not-enabled-here"})
				}
				panic(r)
			}
		}()
		vm.callValue(P.interpose, nil, nil)
	}()
	P.thread2Held = P.heldOrder
	P.heldOrder = savedHeld
	P.curThread = 1
	vm.cur, vm.depth = savedCur, savedDepth
}

func (vm *VM) spawn(fr *Frame, x *ssa.Go) {
	pg := &pendingGo{args: vm.args(fr, x.Call.Args), label: vm.where()}
	if x.Call.Method != nil {
		pg.invoke = &x.Call
		pg.recv = vm.get(fr, x.Call.Value)
	} else {
		switch f := x.Call.Value.(type) {
		case *ssa.Function:
			pg.fn = &FuncV{Fn: f}
		default:
			fv, _ := vm.get(fr, x.Call.Value).(*FuncV)
			pg.fn = fv
		}
	}
	if rs := vm.P.race; rs != nil && rs.on {
		// goroutine start: everything before `go` happens before the new goroutine
		my := rs.clockOf(vm.P.curThread)
		pg.tid = rs.nextTid
		rs.nextTid++
		pg.vc = my.copy()
		pg.vc[pg.tid] = 1
		my[vm.P.curThread]++
	}
	vm.P.pending = append(vm.P.pending, pg)
}

// runPendingAt runs only the i-th queued goroutine (to completion or until it parks).
func (vm *VM) runPendingAt(i int) int {
	if i < 0 || i >= len(vm.P.pending) {
		return 0
	}
	pg := vm.P.pending[i]
	rest := append(append([]*pendingGo(nil), vm.P.pending[:i]...), vm.P.pending[i+1:]...)
	vm.P.pending = []*pendingGo{pg}
	n := vm.runPendingGoroutines()
	vm.P.pending = append(rest, vm.P.pending...)
	return n
}

// runPendingGoroutines runs every queued goroutine to completion (FIFO, including the ones
// spawned meanwhile).  Returns the number that parked.
func (vm *VM) runPendingGoroutines() int {
	parked := 0
	for len(vm.P.pending) > 0 {
		pg := vm.P.pending[0]
		vm.P.pending = vm.P.pending[1:]
		func() {
			saved := vm.cur
			savedDepth := vm.depth
			savedThread := vm.P.curThread
			savedHeld := vm.P.heldOrder
			var parkedHeld []string
			if pg.tid != 0 {
				vm.P.curThread = pg.tid
				vm.P.heldOrder = nil
				if rs := vm.P.race; rs != nil {
					rs.vc[pg.tid] = pg.vc
				}
			}
			defer func() {
				vm.cur = saved
				vm.depth = savedDepth
				vm.P.curThread = savedThread
				vm.P.heldOrder = savedHeld
				if r := recover(); r != nil {
					if _, ok := r.(*blockedSignal); ok {
						parked++
						// the locks a parked goroutine holds stay taken for the rest of the history
						for _, k := range parkedHeld {
							if ls := vm.P.locks[k]; ls != nil && (ls.w || ls.r > 0) {
								ls.other = true
								ls.label += " (held by a parked goroutine)"
							}
						}
						return
					}
					panic(r)
				}
			}()
			defer func() {
				// runs first: what the goroutine itself still holds when it stops
				parkedHeld = nil
				for _, k := range vm.P.heldOrder {
					mine := true
					for _, h := range savedHeld {
						if h == k {
							mine = false
						}
					}
					if mine {
						parkedHeld = append(parkedHeld, k)
					}
				}
			}()
			if pg.invoke != nil {
				vm.invokeMethod(pg.recv, pg.invoke.Method, pg.args)
			} else {
				vm.callValue(pg.fn, pg.args, nil)
			}
		}()
	}
	return parked
}

func (vm *VM) block(what string) {
	panic(&blockedSignal{what})
}

func (vm *VM) chanSend(c ChanV, v Value) {
	vm.lockEventLog("chan", nil, true)
	if c.Obj == nil {
		vm.block("send on nil channel")
	}
	cd := c.Obj.Val.(*ChanData)
	if cd.Closed {
		panic(&goPanic{runtime: "send on closed channel", where: vm.where()})
	}
	if len(cd.Q) < cd.Cap {
		nq := append(append([]Value(nil), cd.Q...), v)
		vm.setObj(c.Obj, &ChanData{Q: nq, Cap: cd.Cap})
		return
	}
	vm.block("send on full channel")
}

func (vm *VM) chanRecv(c ChanV, elem types.Type) (Value, bool) {
	vm.lockEventLog("chan", nil, true)
	if c.Obj == nil {
		vm.block("receive on nil channel")
	}
	cd := c.Obj.Val.(*ChanData)
	if len(cd.Q) > 0 {
		v := cd.Q[0]
		vm.setObj(c.Obj, &ChanData{Q: append([]Value(nil), cd.Q[1:]...), Cap: cd.Cap, Closed: cd.Closed})
		return v, true
	}
	if cd.Closed {
		return vm.zero(elem), false
	}
	vm.block("receive on empty channel")
	return nil, false
}

func (vm *VM) chanClose(c ChanV) {
	if c.Obj == nil {
		panic(&goPanic{runtime: "close of nil channel", where: vm.where()})
	}
	cd := c.Obj.Val.(*ChanData)
	if cd.Closed {
		panic(&goPanic{runtime: "close of closed channel", where: vm.where()})
	}
	vm.setObj(c.Obj, &ChanData{Q: cd.Q, Cap: cd.Cap, Closed: true})
}

// selectStmt: the ready cases are alternatives of a nondeterministic choice.
func (vm *VM) selectStmt(fr *Frame, x *ssa.Select) Value {
	type ready struct {
		idx int
	}
	var rs []int
	for i, st := range x.States {
		c := vm.get(fr, st.Chan).(ChanV)
		if c.Obj == nil {
			continue
		}
		cd := c.Obj.Val.(*ChanData)
		if st.Dir == types.SendOnly {
			if cd.Closed || len(cd.Q) < cd.Cap {
				rs = append(rs, i)
			}
		} else {
			if len(cd.Q) > 0 || cd.Closed {
				rs = append(rs, i)
			}
		}
	}
	nrecv := 0
	for _, st := range x.States {
		if st.Dir == types.RecvOnly {
			nrecv++
		}
	}
	mk := func(idx int, ok bool, recvVals []Value) Value {
		tv := TupleV{mkBV(64, uint64(int64(idx))), mkBool(ok)}
		tv = append(tv, recvVals...)
		return tv
	}
	zeros := func() []Value {
		var vs []Value
		for _, st := range x.States {
			if st.Dir == types.RecvOnly {
				vs = append(vs, vm.zero(st.Chan.Type().Underlying().(*types.Chan).Elem()))
			}
		}
		return vs
	}
	if len(rs) == 0 {
		if !x.Blocking {
			return mk(-1, false, zeros())
		}
		vm.block("select with no ready case")
	}
	k := rs[vm.chooseLogged(len(rs))]
	st := x.States[k]
	c := vm.get(fr, st.Chan).(ChanV)
	vals := zeros()
	if st.Dir == types.SendOnly {
		vm.chanSend(c, vm.get(fr, st.Send))
		return mk(k, false, vals)
	}
	v, ok := vm.chanRecv(c, st.Chan.Type().Underlying().(*types.Chan).Elem())
	ri := 0
	for i, s2 := range x.States {
		if s2.Dir == types.RecvOnly {
			if i == k {
				vals[ri] = v
			}
			ri++
		}
	}
	return mk(k, ok, vals)
}
