package main

// Goroutines, channels and select.
//
// Sequential mode (default): a `go` statement queues the goroutine; the harness decides with
// runPending()/dropPending() whether queued goroutines run (to completion, one after the
// other) or are discarded.  A goroutine that would block forever is parked (abandoned) and a
// NOTE is recorded; the main thread blocking is a "blocked" outcome.

import (
	"fmt"
	"go/types"

	"golang.org/x/tools/go/ssa"
)

type Threads struct{}

type pendingGo struct {
	tid    int
	vc     vclock
	fn     *FuncV
	args   []Value
	invoke *ssa.CallCommon
	recv   Value
	label  string
}

// blockedSignal unwinds a goroutine that cannot make progress in sequential mode.
type blockedSignal struct{ what string }


// schedPoint: a place where another thread may run.  With an interposed operation registered
// (vInterpose) and budget left, the engine forks here: either the registered operation of a
// second thread runs now, atomically and to completion, or not.  An operation that would have
// to wait for a lock the main thread holds is not enabled at this point (that branch ends;
// the sibling branch offers the later scheduling points).  This explores every placement of
// one atomic operation of a second thread at the lock / atomic / file-system boundaries of
// the operation under test.
func (vm *VM) schedPoint(what string) {
	vm.concSchedPoint(what)
	vm.goroutinePreemptPoint(what)
	P := vm.P
	if P.interpose == nil || P.interposeBudget <= 0 || P.curThread != 1 || vm.inInit || P.inSchedPoint {
		return
	}
	if what == "atomic" && !P.interposeAtomics {
		return
	}
	if vm.chooseLogged(2) == 0 {
		return
	}
	P.interposeBudget--
	vm.tickProgress()
	P.interposedAt = append(P.interposedAt, what+" @ "+vm.where())
	savedHeld := P.heldOrder
	savedCur, savedDepth := vm.cur, vm.depth
	P.heldOrder = nil
	P.curThread = 2
	func() {
		defer func() {
			if r := recover(); r != nil {
				if _, ok := r.(*blockedSignal); ok {
					panic(&pathEnd{"interposed-operation-not-enabled-here"})
				}
				panic(r)
			}
		}()
		vm.callValue(P.interpose, nil, nil)
	}()
	P.thread2Held = P.heldOrder
	P.heldOrder = savedHeld
	P.curThread = 1
	vm.cur, vm.depth = savedCur, savedDepth
}

func (vm *VM) spawn(fr *Frame, x *ssa.Go) {
	pg := &pendingGo{args: vm.args(fr, x.Call.Args), label: vm.where()}
	if x.Call.Method != nil {
		pg.invoke = &x.Call
		pg.recv = vm.get(fr, x.Call.Value)
	} else {
		switch f := x.Call.Value.(type) {
		case *ssa.Function:
			pg.fn = &FuncV{Fn: f}
		default:
			fv, _ := vm.get(fr, x.Call.Value).(*FuncV)
			pg.fn = fv
		}
	}
	pg.tid = vm.newTid()
	if rs := vm.P.race; rs != nil && rs.on {
		// goroutine start: everything before `go` happens before the new goroutine
		my := rs.clockOf(vm.P.curThread)
		pg.vc = my.copy()
		pg.vc[pg.tid] = 1
		my[vm.P.curThread]++
	}
	vm.P.pending = append(vm.P.pending, pg)
}

// ---- two-thread interleaving exploration (vConcurrent) -------------------------------------
//
// vConcurrent(f, switches) registers f as the operation of a second request that runs
// CONCURRENTLY with what the main thread does next: at every scheduling point (lock, unlock,
// file-system call, and atomic operation when vInterposeAtomics is on) of the running thread the
// engine may switch to the other one.  Every interleaving with at most `switches` switches from
// the main thread to the second one is explored (preemption bounding); the second thread may
// hand control back at any of its own scheduling points.  vJoin() lets it run to its end.
// vInterpose is the special case "the second operation runs atomically".
func (vm *VM) concSchedPoint(what string) {
	P := vm.P
	co := P.conc
	if co == nil || vm.inInit || P.concJoining {
		return
	}
	if what == "atomic" && !P.interposeAtomics {
		return
	}
	if vm.co == co {
		// inside the second thread: hand control back to the main thread here?  (counts as a
		// switch too: the bound is on the total number of context switches)
		if P.concBudget > 0 && vm.chooseLogged(2) == 1 {
			P.concBudget--
			co.ready, co.what = func() bool { return true }, "preempted at "+what
			co.yield <- coroMsg{}
			if !<-co.resume {
				panic(abortCoro{})
			}
		}
		return
	}
	if vm.co != nil || P.curThread != 1 || P.concBudget <= 0 || P.concDone {
		return
	}
	// main thread: switch to the second thread here?
	idx := -1
	for i, c := range P.parked {
		if c == co {
			idx = i
		}
	}
	if co.started && idx < 0 {
		return // it is running further up the stack (we are inside one of its callbacks)
	}
	if idx >= 0 && co.ready != nil && !co.ready() {
		return // it waits for something the main thread has not done yet
	}
	if vm.chooseLogged(2) == 0 {
		return
	}
	P.concBudget--
	P.interposedAt = append(P.interposedAt, "switch at "+what+" @ "+vm.where())
	if idx >= 0 {
		P.parked = append(P.parked[:idx:idx], P.parked[idx+1:]...)
	}
	if vm.stepCoro(co) {
		P.concDone = true
	}
}

// goroutinePreemptPoint: with vPreemptGoroutines(n) a goroutine started by `go` (run through
// vRunPending / vRunPendingAt) may be preempted at its scheduling points (lock, unlock, atomic
// when enabled, file-system call), at most n times per path in total: it goes back to the set of
// runnable goroutines, from which the scheduler picks by choice.  Without it goroutines run
// without preemption up to their next blocking operation.
func (vm *VM) goroutinePreemptPoint(what string) {
	P := vm.P
	co := vm.co
	if co == nil || co == P.conc || P.gorPreempt <= 0 || vm.inInit {
		return
	}
	if what == "atomic" && !P.interposeAtomics {
		return
	}
	if vm.chooseLogged(2) == 0 {
		return
	}
	P.gorPreempt--
	co.ready, co.what = func() bool { return true }, "preempted at "+what
	co.yield <- coroMsg{}
	if !<-co.resume {
		panic(abortCoro{})
	}
}

// concJoin lets the second thread run to its end (it is no longer preempted).
func (vm *VM) concJoin() {
	P := vm.P
	co := P.conc
	if co == nil || P.concDone {
		return
	}
	P.concJoining = true
	defer func() { P.concJoining = false }()
	for !P.concDone {
		idx := -1
		for i, c := range P.parked {
			if c == co {
				idx = i
			}
		}
		if co.started && idx < 0 {
			return
		}
		if idx >= 0 {
			if co.ready != nil && !co.ready() {
				// it waits for a lock or channel nobody will serve any more
				vm.P.Oblig++
				vm.recordViolation("deadlock.second-thread-blocked-forever", "the concurrent operation cannot finish: "+co.what, tTrue)
				return
			}
			P.parked = append(P.parked[:idx:idx], P.parked[idx+1:]...)
		}
		if vm.stepCoro(co) {
			P.concDone = true
		}
	}
}

// ---- goroutines as coroutines --------------------------------------------------------------
//
// A goroutine started by `go` is queued (pendingGo).  When the harness (vRunPending,
// vRunPendingAt) or a blocked main thread schedules it, it runs as a coroutine: on its own
// host goroutine, but strictly alternating with the scheduler, so that the interpreter state is
// only ever touched by one of them.  A goroutine that cannot go on (channel not ready, lock
// taken) PARKS: it hands control back together with its wake-up condition and stays suspended
// with its whole stack; a later scheduling round resumes it when the condition holds.  This is
// a schedule in which every goroutine runs without preemption up to its next blocking
// operation - the harness chooses the order.

type coro struct {
	pg      *pendingGo
	resume  chan bool // true: go on; false: the path is over, unwind
	yield   chan coroMsg
	ready   func() bool
	what    string
	sendOn  *Object // parked in a send on this (full) channel
	started bool
	// interpreter context while parked
	cur        *Frame
	depth      int
	panicStack []*goPanic
	held       []string
}

type coroMsg struct {
	done bool
	pan  any
}

type abortCoro struct{}

func (vm *VM) newTid() int {
	if rs := vm.P.race; rs != nil && rs.nextTid > vm.P.nextTid {
		vm.P.nextTid = rs.nextTid
	}
	if vm.P.nextTid < 3 {
		vm.P.nextTid = 3
	}
	t := vm.P.nextTid
	vm.P.nextTid++
	if rs := vm.P.race; rs != nil {
		rs.nextTid = vm.P.nextTid
	}
	return t
}

// stepCoro runs (or resumes) co until it finishes or parks.  Returns true when it finished.
func (vm *VM) stepCoro(co *coro) (finished bool) {
	vm.tickProgress() // another thread runs: whatever it does counts as progress of a watched loop
	P := vm.P
	sCur, sDepth, sStack, sThread, sHeld, sCo := vm.cur, vm.depth, vm.panicStack, P.curThread, P.heldOrder, vm.co
	restore := func() {
		vm.cur, vm.depth, vm.panicStack, P.curThread, P.heldOrder, vm.co = sCur, sDepth, sStack, sThread, sHeld, sCo
	}
	P.curThread = co.pg.tid
	vm.co = co
	if co.started {
		vm.cur, vm.depth, vm.panicStack, P.heldOrder = co.cur, co.depth, co.panicStack, co.held
		for _, k := range co.held {
			if ls := P.locks[k]; ls != nil {
				ls.parked = false
			}
		}
	} else {
		co.started = true
		vm.panicStack = nil
		P.heldOrder = nil
		if rs := P.race; rs != nil && co.pg.vc != nil {
			rs.vc[co.pg.tid] = co.pg.vc
		}
		go co.main(vm)
	}
	co.resume <- true
	msg := <-co.yield
	if msg.done {
		// locks the goroutine still holds when it ends are never released
		for _, k := range P.heldOrder {
			if ls := P.locks[k]; ls != nil && (ls.w || ls.r > 0) {
				ls.dead = true
			}
		}
		restore()
		if msg.pan != nil {
			panic(msg.pan)
		}
		return true
	}
	co.cur, co.depth, co.panicStack, co.held = vm.cur, vm.depth, vm.panicStack, P.heldOrder
	for _, k := range co.held {
		if ls := P.locks[k]; ls != nil {
			ls.parked = true
		}
	}
	restore()
	P.parked = append(P.parked, co)
	return false
}

func (co *coro) main(vm *VM) {
	defer func() {
		r := recover()
		if _, ok := r.(abortCoro); ok {
			r = nil
		}
		co.yield <- coroMsg{done: true, pan: r}
	}()
	if !<-co.resume {
		panic(abortCoro{})
	}
	pg := co.pg
	if pg.invoke != nil {
		vm.invokeMethod(pg.recv, pg.invoke.Method, pg.args)
	} else {
		vm.callValue(pg.fn, pg.args, nil)
	}
}

// abortCoros unwinds every parked goroutine at the end of a path.
func (vm *VM) abortCoros() {
	if vm.P == nil {
		return
	}
	for _, co := range vm.P.parked {
		co.resume <- false
		<-co.yield
	}
	vm.P.parked = nil
}

// resumeReady resumes parked goroutines whose wake-up condition holds, until none is left
// that can go on.  Returns whether any of them ran.
func (vm *VM) resumeReady() bool {
	any := false
	for {
		// every parked goroutine that can go on is a candidate: which one the scheduler picks is
		// a choice (the Go scheduler gives no order among runnable goroutines)
		var ready []int
		for i, co := range vm.P.parked {
			if co != vm.P.conc && co.ready != nil && co.ready() {
				ready = append(ready, i)
			}
		}
		if len(ready) == 0 {
			return any
		}
		i := ready[0]
		if len(ready) > 1 {
			i = ready[vm.chooseLogged(len(ready))]
		}
		co := vm.P.parked[i]
		vm.P.parked = append(vm.P.parked[:i:i], vm.P.parked[i+1:]...)
		vm.stepCoro(co)
		any = true
	}
}

// runPendingAt runs only the i-th queued goroutine (until it finishes or parks).
func (vm *VM) runPendingAt(i int) int {
	if i < 0 || i >= len(vm.P.pending) {
		return 0
	}
	pg := vm.P.pending[i]
	vm.P.pending = append(vm.P.pending[:i:i], vm.P.pending[i+1:]...)
	if vm.stepCoro(&coro{pg: pg, resume: make(chan bool), yield: make(chan coroMsg)}) {
		return 0
	}
	return 1
}

// runPendingGoroutines runs every queued goroutine (FIFO, including the ones spawned
// meanwhile) and every parked one that can go on, until all have finished or are parked.
// Returns the number that are parked afterwards.
func (vm *VM) runPendingGoroutines() int {
	for {
		vm.resumeReady()
		if len(vm.P.pending) == 0 {
			break
		}
		vm.runPendingAt(0)
	}
	return len(vm.P.parked)
}

// block: the running thread cannot go on until ready() holds.  A goroutine parks.  The main
// thread lets the other goroutines run (as the Go scheduler would) and goes on if that made
// ready() true; otherwise it is blocked for good (blockedSignal: a "blocked" path end, or
// vBlocks).  The interposed operation of thread 2 is never suspended.
func (vm *VM) block(what string, ready func() bool) {
	if co := vm.co; co != nil && ready != nil {
		co.ready, co.what = ready, what
		co.yield <- coroMsg{}
		if !<-co.resume {
			panic(abortCoro{})
		}
		return
	}
	if vm.P.curThread == 1 && ready != nil && !vm.inInit {
		for !ready() {
			if vm.resumeReady() {
				continue
			}
			if len(vm.P.pending) > 0 {
				vm.runPendingAt(0)
				continue
			}
			break
		}
		if ready() {
			return
		}
	}
	panic(&blockedSignal{what})
}

func (vm *VM) chanSend(c ChanV, v Value) {
	vm.lockEventLog("chan", nil, true)
	if c.Obj == nil {
		vm.block("send on nil channel", nil)
	}
	for {
		cd := c.Obj.Val.(*ChanData)
		if cd.Closed {
			panic(&goPanic{runtime: "send on closed channel", where: vm.where()})
		}
		if len(cd.Q) < cd.Cap {
			nq := append(append([]Value(nil), cd.Q...), v)
			vm.setObj(c.Obj, &ChanData{Q: nq, Cap: cd.Cap})
			vm.raceRelease(fmt.Sprintf("chan:%d", c.Obj.ID), true) // a send happens before the receive that takes it
			return
		}
		if vm.co != nil {
			vm.co.sendOn = c.Obj
		}
		vm.block("send on full channel", func() bool {
			d := c.Obj.Val.(*ChanData)
			return d.Closed || len(d.Q) < d.Cap
		})
		if vm.co != nil {
			vm.co.sendOn = nil
		}
	}
}

func (vm *VM) chanRecv(c ChanV, elem types.Type) (Value, bool) {
	vm.lockEventLog("chan", nil, true)
	if c.Obj == nil {
		vm.block("receive on nil channel", nil)
	}
	for {
		cd := c.Obj.Val.(*ChanData)
		if len(cd.Q) > 0 {
			v := cd.Q[0]
			vm.setObj(c.Obj, &ChanData{Q: append([]Value(nil), cd.Q[1:]...), Cap: cd.Cap, Closed: cd.Closed})
			vm.raceAcquire(fmt.Sprintf("chan:%d", c.Obj.ID), true)
			// Go hands the freed slot to a sender that is blocked on this channel at once (its
			// value is in the buffer when the receive returns): the waiting sender goes on now
			for i, co := range vm.P.parked {
				if co.sendOn == c.Obj && co != vm.co {
					vm.P.parked = append(vm.P.parked[:i:i], vm.P.parked[i+1:]...)
					vm.stepCoro(co)
					break
				}
			}
			return v, true
		}
		if cd.Closed {
			vm.raceAcquire(fmt.Sprintf("chan:%d", c.Obj.ID), true) // close happens before a receive that observes it
			return vm.zero(elem), false
		}
		vm.block("receive on empty channel", func() bool {
			d := c.Obj.Val.(*ChanData)
			return d.Closed || len(d.Q) > 0
		})
	}
}

func (vm *VM) chanClose(c ChanV) {
	if c.Obj == nil {
		panic(&goPanic{runtime: "close of nil channel", where: vm.where()})
	}
	cd := c.Obj.Val.(*ChanData)
	if cd.Closed {
		panic(&goPanic{runtime: "close of closed channel", where: vm.where()})
	}
	vm.setObj(c.Obj, &ChanData{Q: cd.Q, Cap: cd.Cap, Closed: true})
	vm.raceRelease(fmt.Sprintf("chan:%d", c.Obj.ID), true)
}

// selectStmt: the ready cases are alternatives of a nondeterministic choice.
func (vm *VM) selectStmt(fr *Frame, x *ssa.Select) Value {
	readySet := func() []int {
		var rs []int
		for i, st := range x.States {
			c := vm.get(fr, st.Chan).(ChanV)
			if c.Obj == nil {
				continue
			}
			cd := c.Obj.Val.(*ChanData)
			if st.Dir == types.SendOnly {
				if cd.Closed || len(cd.Q) < cd.Cap {
					rs = append(rs, i)
				}
			} else {
				if len(cd.Q) > 0 || cd.Closed {
					rs = append(rs, i)
				}
			}
		}
		return rs
	}
	rs := readySet()
	nrecv := 0
	for _, st := range x.States {
		if st.Dir == types.RecvOnly {
			nrecv++
		}
	}
	mk := func(idx int, ok bool, recvVals []Value) Value {
		tv := TupleV{mkBV(64, uint64(int64(idx))), mkBool(ok)}
		tv = append(tv, recvVals...)
		return tv
	}
	zeros := func() []Value {
		var vs []Value
		for _, st := range x.States {
			if st.Dir == types.RecvOnly {
				vs = append(vs, vm.zero(st.Chan.Type().Underlying().(*types.Chan).Elem()))
			}
		}
		return vs
	}
	if len(rs) == 0 {
		if !x.Blocking {
			return mk(-1, false, zeros())
		}
		for len(rs) == 0 {
			vm.block("select with no ready case", func() bool { return len(readySet()) > 0 })
			rs = readySet()
		}
	}
	k := rs[vm.chooseLogged(len(rs))]
	st := x.States[k]
	c := vm.get(fr, st.Chan).(ChanV)
	vals := zeros()
	if st.Dir == types.SendOnly {
		vm.chanSend(c, vm.get(fr, st.Send))
		return mk(k, false, vals)
	}
	v, ok := vm.chanRecv(c, st.Chan.Type().Underlying().(*types.Chan).Elem())
	ri := 0
	for i, s2 := range x.States {
		if s2.Dir == types.RecvOnly {
			if i == k {
				vals[ri] = v
			}
			ri++
		}
	}
	return mk(k, ok, vals)
}
