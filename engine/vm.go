package main

import (
	"fmt"
	"go/types"
	"strings"

	"golang.org/x/tools/go/ssa"
)

type Intrinsic func(vm *VM, fn *ssa.Function, args []Value) Value

func NewVM(ld *Loaded, cfg *RunConfig, ex *Explorer, worker int) (*VM, error) {
	sol, err := NewSolver(cfg.SolverBin, cfg.QueryTimeout)
	if err != nil {
		return nil, err
	}
	vm := &VM{prog: ld.Prog, ld: ld, solver: sol, globals: map[*ssa.Global]*Object{},
		fninfo: map[*ssa.Function]*fnInfo{}, cfg: cfg, ex: ex, worker: worker,
		initWarnings: map[string]int{}, synGlobals: map[string]Value{}}
	vm.intr = buildIntrinsics()
	if err := vm.runInits(); err != nil {
		sol.Close()
		return nil, err
	}
	return vm, nil
}

// runInits executes the package initialisers of the reservoir packages (and, through
// them, of every dependency that has SSA bodies) once, concretely.
func (vm *VM) runInits() (err error) {
	vm.P = newPathState(nil)
	vm.epoch = 0
	vm.inInit = true
	defer func() {
		vm.inInit = false
		if r := recover(); r != nil {
			switch e := r.(type) {
			case *engineError:
				err = fmt.Errorf("package init: %s", e.msg)
			case *goPanic:
				err = fmt.Errorf("package init panicked: %s", e.String())
			case *pathEnd:
				err = fmt.Errorf("package init ended: %s", e.reason)
			default:
				err = fmt.Errorf("package init crash: %v\n%s", r, stackTrace())
			}
		}
	}()
	for _, path := range repoPkgs {
		p := vm.ld.Pkgs[path]
		if p == nil {
			continue
		}
		init := p.Func("init")
		if init != nil && init.Blocks != nil {
			vm.callFunction(init, nil, nil)
		}
	}
	return nil
}

// skipInit lists packages whose initialisers are not executed (their globals stay zero or
// are supplied by modelGlobal).
var skipInit = map[string]bool{
	"net": true, "unicode": false, "os": true, "time": true, "net/http": true,
}

func (vm *VM) lookupIntrinsic(fn *ssa.Function) (Intrinsic, bool) {
	name := fn.String()
	if in, ok := vm.intr[name]; ok {
		return in, true
	}
	if o := fn.Origin(); o != nil {
		if in, ok := vm.intr[o.String()]; ok {
			return in, true
		}
	}
	// harness vocabulary: any reservoir package, bare name
	if fn.Pkg != nil && strings.HasPrefix(fn.Pkg.Pkg.Path(), "reservoir") {
		if in, ok := vm.intr["vocab."+fn.Name()]; ok && fn.Signature.Recv() == nil {
			return in, true
		}
	}
	if fn.Name() == "init" && fn.Pkg != nil && fn.Signature.Recv() == nil {
		if skipInit[fn.Pkg.Pkg.Path()] || fn.Blocks == nil {
			return func(vm *VM, fn *ssa.Function, args []Value) Value { return nil }, true
		}
	}
	return nil, false
}

// modelGlobal supplies initial values for globals of packages whose init is not run.
func (vm *VM) modelGlobal(g *ssa.Global, elem types.Type) (Value, bool) {
	if g.Pkg == nil {
		return nil, false
	}
	path := g.Pkg.Pkg.Path()
	if strings.HasPrefix(path, "reservoir") {
		return nil, false
	}
	if vm.ld.Pkgs[path] != nil && g.Pkg.Func("init") != nil && g.Pkg.Func("init").Blocks != nil && !skipInit[path] {
		return nil, false // has a real initialiser
	}
	// error sentinels and similar interface-typed globals: distinct opaque objects
	if it, ok := elem.Underlying().(*types.Interface); ok {
		_ = it
		name := path + "." + g.Name()
		if path == "os" && strings.HasPrefix(g.Name(), "Err") {
			name = "io/fs." + g.Name() // os.ErrNotExist etc. are the io/fs values
		}
		return IfaceV{Dyn: vm.synType("sentinel"), V: mkStr(name)}, true
	}
	// pointer-typed singletons (http.DefaultClient, time.UTC ...): distinct opaque objects
	if pt, ok := elem.Underlying().(*types.Pointer); ok {
		st := pt.Elem()
		if _, isStruct := st.Underlying().(*types.Struct); isStruct {
			o := vm.newObjectEpoch0(vm.zero(st), st, path+"."+g.Name())
			return PtrV{Obj: o}, true
		}
	}
	return nil, false
}

func (vm *VM) newObjectEpoch0(v Value, t types.Type, name string) *Object {
	vm.objCounter++
	return &Object{Val: v, Typ: t, Epoch: 0, ID: vm.objCounter, Name: name}
}

var synTypes = map[string]*SynType{}

func (vm *VM) synType(name string) *SynType { return getSynType(name) }

var synMu = make(chan struct{}, 1)

func getSynType(name string) *SynType {
	synMu <- struct{}{}
	defer func() { <-synMu }()
	if t, ok := synTypes[name]; ok {
		return t
	}
	t := &SynType{Name: name}
	synTypes[name] = t
	return t
}

// resetModels clears per-path model state (clock, file system, locks ...).
func (vm *VM) resetModels() {
	vm.thr = nil
}

// ---- helpers for intrinsics ----

func (vm *VM) note(s string) { vm.P.notes = append(vm.P.notes, s) }

func (vm *VM) trace(format string, args ...interface{}) {
	if len(vm.P.trace) < 200 {
		vm.P.trace = append(vm.P.trace, fmt.Sprintf(format, args...))
	}
}

func boolTerm(v Value) *Term { return v.(*Term) }

func constStr(vm *VM, v Value, what string) string {
	s, ok := v.(StrV)
	if !ok {
		panic(vm.fail("%s: expected string, got %T", what, v))
	}
	if s.Sym {
		panic(vm.fail("%s: expected concrete string", what))
	}
	return s.C
}

func constInt(vm *VM, v Value, what string) int {
	t, ok := v.(*Term)
	if !ok || !t.IsConst() {
		panic(vm.fail("%s: expected concrete integer", what))
	}
	return int(t.Int())
}
