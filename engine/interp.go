package main

// Symbolic interpreter for go/ssa.

import (
	"os"
	"fmt"
	"go/constant"
	"go/token"
	"go/types"
	"math"
	"sort"
	"strings"

	"golang.org/x/tools/go/ssa"
)

// ---- control-flow signals (Go panics inside the engine) ----

// goPanic is a panic of the interpreted program.
type goPanic struct {
	val       Value  // the panic value (IfaceV) for explicit panics
	runtime   string // non-empty for run-time panics (index out of range ...)
	recovered bool
	where     string
}

func (p *goPanic) String() string {
	if p.runtime != "" {
		return "runtime error: " + p.runtime + " @ " + p.where
	}
	return "panic(" + showValue(p.val) + ") @ " + p.where
}

// pathEnd terminates the current path (not an error).
type pathEnd struct{ reason string }

// engineError is a tool error: the run is inconclusive.
type engineError struct{ msg string }

func (e *engineError) Error() string { return e.msg }

type Frame struct {
	fn        *ssa.Function
	info      *fnInfo
	env       []Value
	defers    []*deferred
	block     *ssa.BasicBlock
	prev      *ssa.BasicBlock
	backEdges map[int]int
	skipPhis  bool
	mergedInto *ssa.BasicBlock
	caller    *Frame
	pos       token.Pos
}

type deferred struct {
	fn   *FuncV
	args []Value
	// interface-method defers
	invoke *ssa.CallCommon
	recv   Value
}

type fnInfo struct {
	idx      map[ssa.Value]int
	n        int
	repoFunc bool // a function of /repo proper (not a harness, not std)
	ipdom    []int
	endpoint int // 0 no; 1 dashboard endpoint method (marker, body runs); 2 marker only (body cut)
}

type VM struct {
	prog    *ssa.Program
	ld      *Loaded
	solver  *Solver
	globals map[*ssa.Global]*Object
	synGlobals map[string]Value
	fninfo  map[*ssa.Function]*fnInfo
	intr    map[string]Intrinsic

	afterFuncs map[*Object][]*afterFuncRec // context.AfterFunc registrations per Done channel (per path)
	watch      *loopWatch // a loop suspected of never ending (see loopProgress)
	co         *coro // the goroutine (coroutine) executing right now; nil: main thread / thread 2
	epoch      int
	undo       []undoRec
	objCounter int

	// per-path state
	P *PathState

	cfg   *RunConfig
	ex    *Explorer
	depth int
	cur   *Frame

	panicStack []*goPanic
	worker     int
	initWarnings map[string]int
	inInit     bool

	thr *Threads // concurrency extension state (nil in sequential mode)
}

func (vm *VM) fail(format string, args ...interface{}) *engineError {
	where := ""
	if vm.cur != nil {
		where = " [in " + vm.cur.fn.String() + " @ " + vm.prog.Fset.Position(vm.cur.pos).String() + "]"
	}
	return &engineError{msg: fmt.Sprintf(format, args...) + where}
}

func (vm *VM) where() string {
	if vm.cur == nil {
		return "?"
	}
	p := vm.prog.Fset.Position(vm.cur.pos)
	return fmt.Sprintf("%s (%s:%d)", vm.cur.fn.String(), shortFile(p.Filename), p.Line)
}

func shortFile(f string) string {
	if i := strings.Index(f, "/repo/"); i >= 0 {
		return f[i+6:]
	}
	if i := strings.LastIndex(f, "/src/"); i >= 0 {
		return f[i+5:]
	}
	return f
}

func (vm *VM) goPanicRuntime(msg string) {
	panic(&goPanic{runtime: msg, where: vm.where()})
}

func (vm *VM) getInfo(fn *ssa.Function) *fnInfo {
	if fi, ok := vm.fninfo[fn]; ok {
		return fi
	}
	fi := &fnInfo{idx: map[ssa.Value]int{}}
	add := func(v ssa.Value) {
		fi.idx[v] = fi.n
		fi.n++
	}
	for _, p := range fn.Params {
		add(p)
	}
	for _, fv := range fn.FreeVars {
		add(fv)
	}
	for _, b := range fn.Blocks {
		for _, ins := range b.Instrs {
			if v, ok := ins.(ssa.Value); ok {
				add(v)
			}
		}
	}
	pkgOf := func(f *ssa.Function) *ssa.Package {
		for f != nil {
			if f.Pkg != nil {
				return f.Pkg
			}
			if o := f.Origin(); o != nil && o != f {
				f = o
				continue
			}
			f = f.Parent()
		}
		return nil
	}
	if pk := pkgOf(fn); pk != nil && strings.HasPrefix(pk.Pkg.Path(), "reservoir") {
		pos := fn.Pos()
		for p := fn; p != nil && !pos.IsValid(); p = p.Parent() {
			pos = p.Pos()
			if o := p.Origin(); o != nil && !pos.IsValid() {
				pos = o.Pos()
			}
		}
		if fn.Parent() != nil {
			pos = fn.Parent().Pos()
		}
		file := vm.prog.Fset.Position(pos).Filename
		fi.repoFunc = pos.IsValid() && !strings.Contains(file, "zz_verif")
		if recv := fn.Signature.Recv(); recv != nil && len(fn.Params) == 4 && strings.HasSuffix(strings.TrimPrefix(recv.Type().String(), "*"), "Endpoint") {
			switch fn.Name() {
			case "Get", "Post", "Patch", "Put", "Delete":
				// only login and logout keep their bodies (their effects are part of C20);
				// for every other endpoint "the handler ran" is what is observed
				fi.endpoint = 2
				if rn := recv.Type().String(); strings.HasSuffix(rn, "LoginEndpoint") || strings.HasSuffix(rn, "LogoutEndpoint") {
					fi.endpoint = 1
				}
			}
		}
	}
	vm.fninfo[fn] = fi
	return fi
}

// ---- operands ----

func (vm *VM) get(fr *Frame, v ssa.Value) Value {
	switch x := v.(type) {
	case *ssa.Const:
		return vm.constValue(x)
	case *ssa.Global:
		return PtrV{Obj: vm.globalObj(x)}
	case *ssa.Function:
		return &FuncV{Fn: x}
	case *ssa.Builtin:
		return &FuncV{Builtin: x}
	}
	i, ok := fr.info.idx[v]
	if !ok {
		panic(vm.fail("internal: unknown ssa value %s (%T)", v.Name(), v))
	}
	r := fr.env[i]
	if r == nil {
		panic(vm.fail("internal: use of unset ssa value %s in %s", v.Name(), fr.fn))
	}
	return r
}

func (vm *VM) set(fr *Frame, v ssa.Value, val Value) {
	fr.env[fr.info.idx[v]] = val
}

func (vm *VM) globalObj(g *ssa.Global) *Object {
	if o, ok := vm.globals[g]; ok {
		return o
	}
	elem := g.Type().(*types.Pointer).Elem()
	var val Value
	if sv, ok := vm.modelGlobal(g, elem); ok {
		val = sv
	} else {
		val = vm.zero(elem)
	}
	// globals are always epoch 0 so that writes are undone at path end
	vm.objCounter++
	o := &Object{Val: val, Typ: elem, Epoch: 0, ID: vm.objCounter, Name: g.String()}
	if vm.epoch != 0 {
		// created lazily during a path: must be removed again at path end to stay deterministic;
		// simplest: keep it (its value is restored by the undo log because Epoch==0).
	}
	vm.globals[g] = o
	return o
}

func (vm *VM) constValue(c *ssa.Const) Value {
	t := c.Type()
	if c.Value == nil {
		// zero value / nil
		if _, ok := t.Underlying().(*types.Basic); ok && t.Underlying().(*types.Basic).Kind() == types.UntypedNil {
			return PtrV{}
		}
		return vm.zero(t)
	}
	switch u := t.Underlying().(type) {
	case *types.Basic:
		switch {
		case u.Info()&types.IsBoolean != 0:
			return mkBool(constant.BoolVal(c.Value))
		case u.Info()&types.IsString != 0:
			return mkStr(constant.StringVal(c.Value))
		case u.Info()&types.IsInteger != 0:
			w := intWidth(u)
			if u.Info()&types.IsUnsigned != 0 {
				v, _ := constant.Uint64Val(constant.ToInt(c.Value))
				return mkBV(w, v)
			}
			v, ok := constant.Int64Val(constant.ToInt(c.Value))
			if !ok {
				uv, _ := constant.Uint64Val(constant.ToInt(c.Value))
				return mkBV(w, uv)
			}
			return mkBV(w, uint64(v))
		case u.Info()&types.IsFloat != 0:
			f, _ := constant.Float64Val(c.Value)
			return mkFP(f)
		}
	case *types.TypeParam:
	}
	panic(vm.fail("constValue: unsupported constant %v of type %v", c, t))
}

// ---- calls ----

func (vm *VM) callValue(fv Value, args []Value, site ssa.Instruction) Value {
	f, ok := fv.(*FuncV)
	if !ok || f == nil {
		vm.goPanicRuntime("call of nil function")
	}
	if f.Native != nil {
		return f.Native(vm, args)
	}
	if f.Builtin != nil {
		return vm.callBuiltin(f.Builtin, args, site)
	}
	full := make([]Value, 0, len(args))
	full = append(full, args...)
	return vm.callFunction(f.Fn, full, f.Env)
}

const maxDepth = 400

func (vm *VM) callFunction(fn *ssa.Function, args []Value, env []Value) (ret Value) {
	if len(vm.P.overrides) > 0 {
		if ov, ok := vm.P.overrides[fn.String()]; ok {
			return vm.callValue(ov, args, nil)
		}
	}
	if in, ok := vm.lookupIntrinsic(fn); ok {
		if vm.watch != nil && !pureIntrinsic(fn.String()) {
			if os.Getenv("GOSYM_LOOPDBG") != "" {
				fmt.Fprintf(os.Stderr, "LOOPDBG intrinsic %s\n", fn.String())
			}
			vm.watch.progress++ // a model with effects (or one not known to be pure) ran
		}
		return in(vm, fn, args)
	}
	if fn.Blocks == nil {
		if vm.inInit {
			vm.initWarnings[fn.String()]++
			return vm.opaqueResult(fn)
		}
		panic(vm.fail("no model for body-less function %s", fn.String()))
	}
	if vm.depth > maxDepth {
		panic(vm.fail("recursion depth exceeded calling %s", fn))
	}
	info := vm.getInfo(fn)
	if info.repoFunc && !vm.inInit {
		vm.P.touched[fn.String()] = true
	}
	if info.endpoint != 0 {
		vm.bumpMarker("endpoint-method")
		if info.endpoint == 2 {
			return nil // the endpoint's own effects are outside C20: "the handler ran" is what is observed
		}
	}
	fr := &Frame{fn: fn, info: info, env: make([]Value, info.n), caller: vm.cur}
	if len(args) != len(fn.Params) {
		panic(vm.fail("internal: call %s with %d args, want %d", fn, len(args), len(fn.Params)))
	}
	for i, p := range fn.Params {
		fr.env[info.idx[p]] = args[i]
	}
	for i, fvr := range fn.FreeVars {
		fr.env[info.idx[fvr]] = env[i]
	}
	vm.depth++
	saved := vm.cur
	vm.cur = fr
	defer func() {
		vm.depth--
		vm.cur = saved
	}()
	return vm.runFrame(fr)
}

func (vm *VM) opaqueResult(fn *ssa.Function) Value {
	res := fn.Signature.Results()
	switch res.Len() {
	case 0:
		return nil
	case 1:
		return vm.zero(res.At(0).Type())
	}
	tv := make(TupleV, res.Len())
	for i := range tv {
		tv[i] = vm.zero(res.At(i).Type())
	}
	return tv
}

func (vm *VM) zeroResults(fn *ssa.Function) Value { return vm.opaqueResult(fn) }

func (vm *VM) runFrame(fr *Frame) (ret Value) {
	defer func() {
		r := recover()
		if r == nil {
			return
		}
		gp, ok := r.(*goPanic)
		if !ok {
			panic(r)
		}
		vm.cur = fr
		vm.panicStack = append(vm.panicStack, gp)
		func() {
			defer func() { vm.panicStack = vm.panicStack[:len(vm.panicStack)-1] }()
			vm.runDefers(fr)
		}()
		if gp.recovered {
			if fr.fn.Recover != nil {
				ret = vm.execFrom(fr, fr.fn.Recover)
			} else {
				ret = vm.zeroResults(fr.fn)
			}
			return
		}
		panic(gp)
	}()
	return vm.execFrom(fr, fr.fn.Blocks[0])
}

func (vm *VM) runDefers(fr *Frame) {
	for len(fr.defers) > 0 {
		d := fr.defers[len(fr.defers)-1]
		fr.defers = fr.defers[:len(fr.defers)-1]
		if d.invoke != nil {
			vm.invokeMethod(d.recv, d.invoke.Method, d.args)
		} else {
			vm.callValue(d.fn, d.args, nil)
		}
		vm.cur = fr
	}
}

func (vm *VM) execFrom(fr *Frame, b *ssa.BasicBlock) Value {
	fr.block = b
	for {
		var next *ssa.BasicBlock
		for _, ins := range fr.block.Instrs {
			if p := ins.Pos(); p.IsValid() {
				fr.pos = p
			}
			vm.P.Steps++
			switch x := ins.(type) {
			case *ssa.Return:
				switch len(x.Results) {
				case 0:
					return nil
				case 1:
					return vm.get(fr, x.Results[0])
				}
				tv := make(TupleV, len(x.Results))
				for i, r := range x.Results {
					tv[i] = vm.get(fr, r)
				}
				return tv
			case *ssa.Jump:
				next = fr.block.Succs[0]
			case *ssa.If:
				c := vm.get(fr, x.Cond).(*Term)
				if !c.IsConst() && !vm.cfg.NoMerge {
					if j := vm.tryMerge(fr, c); j != nil {
						next = j
						break
					}
				}
				if vm.branch(c) {
					next = fr.block.Succs[0]
				} else {
					next = fr.block.Succs[1]
				}
			case *ssa.Panic:
				panic(&goPanic{val: vm.get(fr, x.X), where: vm.where()})
			default:
				vm.exec(fr, ins)
			}
			if next != nil {
				break
			}
		}
		if next == nil {
			panic(vm.fail("internal: block %d of %s fell through", fr.block.Index, fr.fn))
		}
		if next.Index <= fr.block.Index {
			if fr.backEdges == nil {
				fr.backEdges = map[int]int{}
			}
			fr.backEdges[next.Index]++
			if !vm.inInit {
				vm.loopProgress(fr, next.Index, fr.backEdges[next.Index])
			}
			if fr.backEdges[next.Index] > vm.cfg.Unwind && !vm.inInit {
				panic(&engineError{msg: fmt.Sprintf("unwinding bound %d exceeded in %s (%s)", vm.cfg.Unwind, fr.fn, vm.where())})
			}
		}
		if fr.mergedInto == next {
			fr.skipPhis = true
			fr.mergedInto = nil
		} else {
			fr.skipPhis = false
			fr.prev = fr.block
		}
		fr.block = next
	}
}

// ---- if-conversion: side-effect-free triangles and diamonds are merged into ite terms ----

func pureInstr(ins ssa.Instruction) bool {
	switch x := ins.(type) {
	case *ssa.DebugRef:
		return true
	case *ssa.BinOp:
		switch x.Op {
		case token.QUO, token.REM, token.SHL, token.SHR:
			return false
		}
		if _, ok := x.X.Type().Underlying().(*types.Basic); !ok {
			return false
		}
		if isString(x.X.Type()) {
			return x.Op == token.EQL || x.Op == token.NEQ || x.Op == token.LSS || x.Op == token.GTR || x.Op == token.LEQ || x.Op == token.GEQ
		}
		return true
	case *ssa.UnOp:
		return x.Op == token.NOT || x.Op == token.SUB || x.Op == token.XOR
	case *ssa.Convert:
		_, ok1 := x.X.Type().Underlying().(*types.Basic)
		_, ok2 := x.Type().Underlying().(*types.Basic)
		return ok1 && ok2 && !isString(x.Type()) && !isString(x.X.Type())
	case *ssa.ChangeType:
		return true
	}
	return false
}

// simpleBlock: only pure instructions followed by a Jump; single predecessor.
func simpleBlock(b *ssa.BasicBlock) (*ssa.BasicBlock, bool) {
	if len(b.Preds) != 1 || len(b.Instrs) == 0 || len(b.Instrs) > 12 {
		return nil, false
	}
	for _, ins := range b.Instrs[:len(b.Instrs)-1] {
		if !pureInstr(ins) {
			return nil, false
		}
	}
	if _, ok := b.Instrs[len(b.Instrs)-1].(*ssa.Jump); !ok {
		return nil, false
	}
	return b.Succs[0], true
}

func (vm *VM) runPure(fr *Frame, b *ssa.BasicBlock) {
	for _, ins := range b.Instrs[:len(b.Instrs)-1] {
		vm.exec(fr, ins)
	}
}

// ipdoms computes immediate post-dominators (block index -> index, -1 = exit).
func ipdoms(fn *ssa.Function) []int {
	n := len(fn.Blocks)
	const exit = -1
	// pdom sets as bitsets over n+1 (last bit = virtual exit)
	full := make([]uint64, (n+64)/64)
	for i := range full {
		full[i] = ^uint64(0)
	}
	sets := make([][]uint64, n)
	for i := range sets {
		sets[i] = append([]uint64(nil), full...)
	}
	changed := true
	for changed {
		changed = false
		for bi := n - 1; bi >= 0; bi-- {
			b := fn.Blocks[bi]
			nw := make([]uint64, len(full))
			if len(b.Succs) == 0 {
				// only itself (exit implicit)
			} else {
				copy(nw, full)
				for _, sc := range b.Succs {
					for k := range nw {
						nw[k] &= sets[sc.Index][k]
					}
				}
			}
			nw[bi/64] |= 1 << uint(bi%64)
			same := true
			for k := range nw {
				if nw[k] != sets[bi][k] {
					same = false
				}
			}
			if !same {
				sets[bi] = nw
				changed = true
			}
		}
	}
	res := make([]int, n)
	for bi := 0; bi < n; bi++ {
		res[bi] = exit
		// immediate post-dominator: the strict post-dominator that is post-dominated by all other strict ones
		best := -1
		bestCount := -1
		for c := 0; c < n; c++ {
			if c == bi || sets[bi][c/64]&(1<<uint(c%64)) == 0 {
				continue
			}
			// count of post-dominators of c: the closest one has the most
			cnt := 0
			for k := range sets[c] {
				x := sets[c][k]
				for x != 0 {
					x &= x - 1
					cnt++
				}
			}
			if cnt > bestCount {
				bestCount = cnt
				best = c
			}
		}
		res[bi] = best
	}
	return res
}

const maxMergeBlocks = 24

// tryMerge: if the conditional at the end of fr.block opens a side-effect-free, acyclic
// region that re-converges at the immediate post-dominator, the region is evaluated once
// with path predicates and the join's phis become ite terms (no fork, no solver query).
func (vm *VM) tryMerge(fr *Frame, c *Term) *ssa.BasicBlock {
	cur := fr.block
	if fr.info.ipdom == nil {
		fr.info.ipdom = ipdoms(fr.fn)
	}
	ji := fr.info.ipdom[cur.Index]
	if ji < 0 {
		return nil
	}
	join := fr.fn.Blocks[ji]
	if join.Index <= cur.Index {
		return nil
	}
	// collect the region
	inRegion := map[*ssa.BasicBlock]bool{}
	var order []*ssa.BasicBlock // reverse post-order (topological)
	state := map[*ssa.BasicBlock]int{}
	ok := true
	var dfs func(b *ssa.BasicBlock)
	dfs = func(b *ssa.BasicBlock) {
		if !ok || b == join {
			return
		}
		switch state[b] {
		case 1:
			ok = false // cycle
			return
		case 2:
			return
		}
		if b == cur || len(inRegion) >= maxMergeBlocks {
			ok = false
			return
		}
		state[b] = 1
		inRegion[b] = true
		if len(b.Instrs) == 0 {
			ok = false
			return
		}
		for _, ins := range b.Instrs[:len(b.Instrs)-1] {
			if _, isPhi := ins.(*ssa.Phi); isPhi {
				continue
			}
			if !pureInstr(ins) {
				ok = false
				return
			}
		}
		switch b.Instrs[len(b.Instrs)-1].(type) {
		case *ssa.If, *ssa.Jump:
		default:
			ok = false
			return
		}
		for _, sc := range b.Succs {
			dfs(sc)
		}
		state[b] = 2
		order = append(order, b)
	}
	for _, sc := range cur.Succs {
		dfs(sc)
	}
	if !ok {
		return nil
	}
	// no entries into the region from outside
	for b := range inRegion {
		for _, p := range b.Preds {
			if p != cur && !inRegion[p] {
				return nil
			}
		}
	}
	for _, p := range join.Preds {
		if p != cur && !inRegion[p] {
			return nil
		}
	}
	// phis (in region blocks and in the join) must be scalar
	scalarPhi := func(ph *ssa.Phi) bool {
		_, okb := ph.Type().Underlying().(*types.Basic)
		return okb && !isString(ph.Type())
	}
	for b := range inRegion {
		for _, ins := range b.Instrs {
			if ph, isPhi := ins.(*ssa.Phi); isPhi && !scalarPhi(ph) {
				return nil
			}
		}
	}
	for _, ins := range join.Instrs {
		if ph, isPhi := ins.(*ssa.Phi); isPhi && !scalarPhi(ph) {
			return nil
		}
	}
	// evaluate
	type edge struct{ from, to *ssa.BasicBlock }
	edgeCond := map[edge]*Term{}
	edgeCond[edge{cur, cur.Succs[0]}] = c
	if cur.Succs[1] == cur.Succs[0] {
		edgeCond[edge{cur, cur.Succs[0]}] = tTrue
	} else {
		edgeCond[edge{cur, cur.Succs[1]}] = mkNot(c)
	}
	phiValue := func(b *ssa.BasicBlock, ph *ssa.Phi) (*Term, bool) {
		var res *Term
		for k := len(b.Preds) - 1; k >= 0; k-- {
			p := b.Preds[k]
			ec, has := edgeCond[edge{p, b}]
			if !has || ec.isFalse() {
				continue
			}
			v, isT := vm.get(fr, ph.Edges[k]).(*Term)
			if !isT {
				return nil, false
			}
			if res == nil {
				res = v
			} else {
				res = mkIte(ec, v, res)
			}
		}
		return res, res != nil
	}
	for k := len(order) - 1; k >= 0; k-- {
		b := order[k]
		pred := tFalse
		for _, p := range b.Preds {
			if ec, has := edgeCond[edge{p, b}]; has {
				pred = mkOr(pred, ec)
			}
		}
		for _, ins := range b.Instrs[:len(b.Instrs)-1] {
			if ph, isPhi := ins.(*ssa.Phi); isPhi {
				v, okv := phiValue(b, ph)
				if !okv {
					return nil
				}
				vm.set(fr, ph, v)
				continue
			}
			vm.exec(fr, ins)
		}
		switch t := b.Instrs[len(b.Instrs)-1].(type) {
		case *ssa.Jump:
			e := edge{b, b.Succs[0]}
			if old, has := edgeCond[e]; has {
				edgeCond[e] = mkOr(old, pred)
			} else {
				edgeCond[e] = pred
			}
		case *ssa.If:
			bc, isT := vm.get(fr, t.Cond).(*Term)
			if !isT {
				return nil
			}
			if b.Succs[0] == b.Succs[1] {
				edgeCond[edge{b, b.Succs[0]}] = pred
			} else {
				edgeCond[edge{b, b.Succs[0]}] = mkAnd(pred, bc)
				edgeCond[edge{b, b.Succs[1]}] = mkAnd(pred, mkNot(bc))
			}
		}
	}
	for _, ins := range join.Instrs {
		ph, isPhi := ins.(*ssa.Phi)
		if !isPhi {
			continue
		}
		v, okv := phiValue(join, ph)
		if !okv {
			return nil
		}
		vm.set(fr, ph, v)
	}
	vm.P.Merges++
	fr.mergedInto = join
	return join
}

func (vm *VM) args(fr *Frame, vs []ssa.Value) []Value {
	r := make([]Value, len(vs))
	for i, v := range vs {
		r[i] = vm.get(fr, v)
	}
	return r
}

func (vm *VM) doCall(fr *Frame, c *ssa.CallCommon, site ssa.Instruction) Value {
	args := vm.args(fr, c.Args)
	if c.Method != nil {
		recv := vm.get(fr, c.Value)
		return vm.invokeMethod(recv, c.Method, args)
	}
	switch f := c.Value.(type) {
	case *ssa.Function:
		return vm.callFunction(f, args, nil)
	case *ssa.Builtin:
		return vm.callBuiltin(f, args, site)
	}
	return vm.callValue(vm.get(fr, c.Value), args, site)
}

func (vm *VM) invokeMethod(recv Value, m *types.Func, args []Value) Value {
	iv, ok := recv.(IfaceV)
	if !ok {
		panic(vm.fail("internal: invoke on %T", recv))
	}
	if iv.Dyn == nil && vm.inInit {
		vm.initWarnings["invoke "+m.FullName()+" on opaque nil"]++
		sig := m.Type().(*types.Signature)
		switch sig.Results().Len() {
		case 0:
			return nil
		case 1:
			return vm.zero(sig.Results().At(0).Type())
		}
		return vm.zero(sig.Results())
	}
	if iv.Dyn == nil {
		vm.goPanicRuntime("invalid memory address or nil pointer dereference (method " + m.Name() + " on nil interface)")
	}
	switch d := iv.Dyn.(type) {
	case *SynType:
		key := "syn:" + d.Name + "." + m.Name()
		in, ok := vm.intr[key]
		if !ok {
			panic(vm.fail("no model for method %s", key))
		}
		return in(vm, nil, append([]Value{iv.V}, args...))
	case types.Type:
		fn := vm.prog.LookupMethod(d, m.Pkg(), m.Name())
		if fn == nil {
			panic(vm.fail("method %s not found on %v", m.Name(), d))
		}
		return vm.callFunction(fn, append([]Value{iv.V}, args...), nil)
	}
	panic(vm.fail("internal: bad dyn type"))
}

// ---- instruction execution ----

func (vm *VM) exec(fr *Frame, ins ssa.Instruction) {
	switch x := ins.(type) {
	case *ssa.DebugRef:
	case *ssa.Alloc:
		elem := x.Type().(*types.Pointer).Elem()
		o := vm.newObject(vm.zero(elem), elem, x.Comment)
		vm.set(fr, x, PtrV{Obj: o})
	case *ssa.Store:
		vm.store(vm.get(fr, x.Addr).(PtrV), vm.get(fr, x.Val))
	case *ssa.UnOp:
		vm.set(fr, x, vm.unop(fr, x))
	case *ssa.BinOp:
		vm.set(fr, x, vm.binop(x.Op, x.X.Type(), vm.get(fr, x.X), vm.get(fr, x.Y), x.Y.Type()))
	case *ssa.Call:
		vm.set(fr, x, vm.doCall(fr, &x.Call, x))
		vm.cur = fr
	case *ssa.Phi:
		if fr.skipPhis {
			return
		}
		for i, p := range fr.block.Preds {
			if p == fr.prev {
				vm.set(fr, x, vm.get(fr, x.Edges[i]))
				return
			}
		}
		panic(vm.fail("internal: phi without matching predecessor"))
	case *ssa.ChangeType:
		vm.set(fr, x, vm.get(fr, x.X))
	case *ssa.ChangeInterface:
		vm.set(fr, x, vm.get(fr, x.X))
	case *ssa.MakeInterface:
		v := vm.get(fr, x.X)
		vm.set(fr, x, IfaceV{Dyn: x.X.Type(), V: v})
	case *ssa.Convert:
		vm.set(fr, x, vm.convert(vm.get(fr, x.X), x.X.Type(), x.Type()))
	case *ssa.Extract:
		vm.set(fr, x, vm.get(fr, x.Tuple).(TupleV)[x.Index])
	case *ssa.Field:
		vm.set(fr, x, vm.get(fr, x.X).(*StructV).F[x.Field])
	case *ssa.FieldAddr:
		p := vm.get(fr, x.X).(PtrV)
		if p.Obj == nil {
			vm.goPanicRuntime("nil pointer dereference (field address)")
		}
		vm.set(fr, x, ptrField(p, x.Field))
	case *ssa.Index:
		vm.set(fr, x, vm.index(fr, x))
	case *ssa.IndexAddr:
		vm.set(fr, x, vm.indexAddr(fr, x))
	case *ssa.Lookup:
		vm.set(fr, x, vm.lookup(fr, x))
	case *ssa.MakeClosure:
		fn := x.Fn.(*ssa.Function)
		vm.set(fr, x, &FuncV{Fn: fn, Env: vm.args(fr, x.Bindings)})
	case *ssa.MakeMap:
		vm.set(fr, x, vm.newMap())
	case *ssa.MakeSlice:
		n := vm.concreteInt(vm.get(fr, x.Len).(*Term), "make len")
		c := vm.concreteInt(vm.get(fr, x.Cap).(*Term), "make cap")
		if n < 0 {
			vm.goPanicRuntime("makeslice: len out of range")
		}
		if c < n {
			vm.goPanicRuntime("makeslice: cap out of range")
		}
		elem := x.Type().Underlying().(*types.Slice).Elem()
		vm.set(fr, x, vm.makeSlice(elem, n, c))
	case *ssa.MakeChan:
		c := vm.concreteInt(vm.get(fr, x.Size).(*Term), "make chan size")
		vm.set(fr, x, ChanV{Obj: vm.newObject(&ChanData{Cap: c}, nil, "chan")})
	case *ssa.MapUpdate:
		vm.mapStore(vm.get(fr, x.Map).(MapV), vm.get(fr, x.Key), vm.get(fr, x.Value))
	case *ssa.Range:
		vm.set(fr, x, vm.makeRange(vm.get(fr, x.X)))
	case *ssa.Next:
		vm.set(fr, x, vm.next(vm.get(fr, x.Iter).(*rangeIter), x))
	case *ssa.Slice:
		vm.set(fr, x, vm.slice(fr, x))
	case *ssa.SliceToArrayPointer:
		s := vm.get(fr, x.X).(SliceV)
		n := int(x.Type().(*types.Pointer).Elem().Underlying().(*types.Array).Len())
		if s.Len < n {
			vm.goPanicRuntime("cannot convert slice to array pointer: length too short")
		}
		if s.Arr == nil {
			vm.set(fr, x, PtrV{})
			return
		}
		// pointer to a fresh view is not expressible; require full-array alignment
		if s.Off == 0 && len(vm.navigate(s.Arr.Val, s.Path).(*ArrayV).E) == n {
			vm.set(fr, x, PtrV{Obj: s.Arr, Path: s.Path})
			return
		}
		panic(vm.fail("SliceToArrayPointer on unaligned slice"))
	case *ssa.TypeAssert:
		vm.set(fr, x, vm.typeAssert(fr, x))
	case *ssa.Defer:
		d := &deferred{args: vm.args(fr, x.Call.Args)}
		if x.Call.Method != nil {
			d.invoke = &x.Call
			d.recv = vm.get(fr, x.Call.Value)
		} else {
			switch f := x.Call.Value.(type) {
			case *ssa.Function:
				d.fn = &FuncV{Fn: f}
			case *ssa.Builtin:
				d.fn = &FuncV{Builtin: f}
			default:
				fv, _ := vm.get(fr, x.Call.Value).(*FuncV)
				d.fn = fv
			}
		}
		fr.defers = append(fr.defers, d)
	case *ssa.RunDefers:
		vm.runDefers(fr)
	case *ssa.Go:
		vm.spawn(fr, x)
	case *ssa.Send:
		vm.chanSend(vm.get(fr, x.Chan).(ChanV), vm.get(fr, x.X))
	case *ssa.Select:
		vm.set(fr, x, vm.selectStmt(fr, x))
	case *ssa.MultiConvert:
		vm.set(fr, x, vm.convert(vm.get(fr, x.X), x.X.Type(), x.Type()))
	default:
		panic(vm.fail("unsupported instruction %T: %v", ins, ins))
	}
}

func (vm *VM) concreteInt(t *Term, what string) int {
	if t.IsConst() {
		return int(t.Int())
	}
	// concretise by forking over small values
	lim := vm.cfg.MaxConcretize
	conds := make([]*Term, 0, lim+1)
	for i := 0; i <= lim; i++ {
		conds = append(conds, mkEq(t, mkBV(t.S.W, uint64(i))))
	}
	k := vm.fork(conds, true)
	if k < 0 {
		panic(vm.fail("cannot concretise symbolic %s within 0..%d", what, lim))
	}
	return k
}

// concretizeIndex returns a concrete in-range index for a possibly symbolic one,
// raising the Go run-time panic on the out-of-range branch.
func (vm *VM) concretizeIndex(t *Term, n int, signed bool, what string) int {
	if t.IsConst() {
		var i int64
		if signed {
			i = t.Int()
		} else {
			if t.Uint() > math.MaxInt64 {
				i = -1
			} else {
				i = int64(t.Uint())
			}
		}
		if i < 0 || i >= int64(n) {
			vm.goPanicRuntime(fmt.Sprintf("index out of range [%d] with length %d (%s)", i, n, what))
		}
		return int(i)
	}
	if signed {
		t = mkSext(t, 64)
	} else {
		t = mkZext(t, 64)
	}
	inb := mkBVCmp("bvult", t, mkBV(t.S.W, uint64(n)))
	if !vm.branch(inb) {
		vm.goPanicRuntime(fmt.Sprintf("index out of range [symbolic] with length %d (%s)", n, what))
	}
	conds := make([]*Term, n)
	for i := 0; i < n; i++ {
		conds[i] = mkEq(t, mkBV(t.S.W, uint64(i)))
	}
	k := vm.fork(conds, false)
	if k < 0 {
		panic(&pathEnd{"infeasible index"})
	}
	return k
}

func (vm *VM) unop(fr *Frame, x *ssa.UnOp) Value {
	v := vm.get(fr, x.X)
	switch x.Op {
	case token.MUL:
		return vm.load(v.(PtrV))
	case token.NOT:
		return mkNot(v.(*Term))
	case token.SUB:
		t := v.(*Term)
		if t.S.K == SFP {
			return mkFPBin("fp.sub", mkFP(0), t) // -x ≈ 0-x (sign of zero ignored)
		}
		return mkBVNeg(t)
	case token.XOR:
		return mkBVNot(v.(*Term))
	case token.ARROW:
		val, ok := vm.chanRecv(v.(ChanV), x.X.Type().Underlying().(*types.Chan).Elem())
		if x.CommaOk {
			return TupleV{val, mkBool(ok)}
		}
		return val
	}
	panic(vm.fail("unsupported unop %v", x.Op))
}

func (vm *VM) binop(op token.Token, xt types.Type, a, b Value, yt types.Type) Value {
	switch op {
	case token.EQL:
		return vm.valueEqTyped(a, b)
	case token.NEQ:
		return mkNot(vm.valueEqTyped(a, b))
	}
	switch x := a.(type) {
	case StrV:
		y := b.(StrV)
		switch op {
		case token.ADD:
			return strConcat(x, y)
		case token.LSS:
			return strLess(x, y)
		case token.GTR:
			return strLess(y, x)
		case token.LEQ:
			return mkNot(strLess(y, x))
		case token.GEQ:
			return mkNot(strLess(x, y))
		}
	case *Term:
		y := b.(*Term)
		if x.S.K == SFP {
			switch op {
			case token.ADD:
				return mkFPBin("fp.add", x, y)
			case token.SUB:
				return mkFPBin("fp.sub", x, y)
			case token.MUL:
				return mkFPBin("fp.mul", x, y)
			case token.QUO:
				return mkFPBin("fp.div", x, y)
			case token.LSS:
				return mkFPCmp("fp.lt", x, y)
			case token.LEQ:
				return mkFPCmp("fp.leq", x, y)
			case token.GTR:
				return mkFPCmp("fp.gt", x, y)
			case token.GEQ:
				return mkFPCmp("fp.geq", x, y)
			}
			break
		}
		if x.S.K == SBool {
			switch op {
			case token.AND, token.LAND:
				return mkAnd(x, y)
			case token.OR, token.LOR:
				return mkOr(x, y)
			}
			break
		}
		signed := isSigned(xt)
		switch op {
		case token.ADD:
			return mkBVBin("bvadd", x, y)
		case token.SUB:
			return mkBVBin("bvsub", x, y)
		case token.MUL:
			return mkBVBin("bvmul", x, y)
		case token.QUO, token.REM:
			zero := mkEq(y, mkBV(y.S.W, 0))
			if vm.branch(zero) {
				vm.goPanicRuntime("integer divide by zero")
			}
			if op == token.QUO {
				if signed {
					return mkBVBin("bvsdiv", x, y)
				}
				return mkBVBin("bvudiv", x, y)
			}
			if signed {
				return mkBVBin("bvsrem", x, y)
			}
			return mkBVBin("bvurem", x, y)
		case token.AND:
			return mkBVBin("bvand", x, y)
		case token.OR:
			return mkBVBin("bvor", x, y)
		case token.XOR:
			return mkBVBin("bvxor", x, y)
		case token.AND_NOT:
			return mkBVBin("bvand", x, mkBVNot(y))
		case token.SHL, token.SHR:
			return vm.shift(op, x, y, signed, isSigned(yt))
		case token.LSS:
			if signed {
				return mkBVCmp("bvslt", x, y)
			}
			return mkBVCmp("bvult", x, y)
		case token.LEQ:
			if signed {
				return mkBVCmp("bvsle", x, y)
			}
			return mkBVCmp("bvule", x, y)
		case token.GTR:
			if signed {
				return mkBVCmp("bvsgt", x, y)
			}
			return mkBVCmp("bvugt", x, y)
		case token.GEQ:
			if signed {
				return mkBVCmp("bvsge", x, y)
			}
			return mkBVCmp("bvuge", x, y)
		}
	}
	panic(vm.fail("unsupported binop %v on %T", op, a))
}

func (vm *VM) valueEqTyped(a, b Value) *Term {
	// nil comparisons of differently-represented nils
	return vm.valueEq(a, b)
}

func (vm *VM) shift(op token.Token, x, y *Term, xSigned, ySigned bool) *Term {
	w := x.S.W
	if ySigned {
		neg := mkBVCmp("bvslt", y, mkBV(y.S.W, 0))
		if vm.branch(neg) {
			vm.goPanicRuntime("negative shift amount")
		}
	}
	// saturate the count to width w
	var cnt *Term
	var big *Term
	if y.S.W > w {
		big = mkBVCmp("bvuge", y, mkBV(y.S.W, uint64(w)))
		cnt = mkExtract(w-1, 0, y)
	} else {
		cnt = mkZext(y, w)
		big = mkBVCmp("bvuge", cnt, mkBV(w, uint64(w)))
	}
	var r, over *Term
	switch {
	case op == token.SHL:
		r = mkBVBin("bvshl", x, cnt)
		over = mkBV(w, 0)
	case xSigned:
		r = mkBVBin("bvashr", x, cnt)
		over = mkBVBin("bvashr", x, mkBV(w, uint64(w-1)))
	default:
		r = mkBVBin("bvlshr", x, cnt)
		over = mkBV(w, 0)
	}
	return mkIte(big, over, r)
}

func (vm *VM) convert(v Value, from, to types.Type) Value {
	fu, tu := from.Underlying(), to.Underlying()
	switch t := tu.(type) {
	case *types.Basic:
		switch {
		case t.Info()&types.IsInteger != 0:
			tw := intWidth(t)
			switch f := fu.(type) {
			case *types.Basic:
				x := v.(*Term)
				switch {
				case f.Info()&types.IsInteger != 0:
					if isSigned(from) {
						return mkSext(x, tw)
					}
					return mkZext(x, tw)
				case f.Info()&types.IsFloat != 0:
					if fs, ok := vm.floatSecs(x); ok {
						return fs
					}
					return mkFPToInt(x, tw, isSigned(to))
				}
			}
			if _, ok := v.(PtrV); ok { // uintptr(unsafe.Pointer)
				return mkBV(tw, 0)
			}
		case t.Info()&types.IsFloat != 0:
			x := v.(*Term)
			if isInteger(from) {
				return mkIntToFP(x, isSigned(from))
			}
			return x
		case t.Info()&types.IsString != 0:
			switch f := fu.(type) {
			case *types.Basic:
				if f.Info()&types.IsString != 0 {
					return v
				}
				if f.Info()&types.IsInteger != 0 {
					return vm.runeToString(v.(*Term), isSigned(from))
				}
			case *types.Slice:
				eb, _ := f.Elem().Underlying().(*types.Basic)
				if eb != nil && eb.Kind() == types.Uint8 {
					return vm.strFromByteSlice(v.(SliceV))
				}
				if eb != nil && eb.Kind() == types.Int32 {
					var out StrV
					for _, r := range vm.sliceElems(v.(SliceV)) {
						out = strConcat(out, vm.runeToString(r.(*Term), true))
					}
					return out
				}
			}
		case t.Kind() == types.UnsafePointer:
			return v
		case t.Info()&types.IsBoolean != 0:
			return v
		}
	case *types.Slice:
		if isString(from) {
			eb, _ := t.Elem().Underlying().(*types.Basic)
			if eb != nil && eb.Kind() == types.Uint8 {
				return vm.byteSliceFromStr(v.(StrV))
			}
			if eb != nil && eb.Kind() == types.Int32 {
				s := v.(StrV)
				if s.Sym {
					panic(vm.fail("[]rune(symbolic string) unsupported"))
				}
				var rs []Value
				for _, r := range s.C {
					rs = append(rs, mkBV(32, uint64(r)))
				}
				return vm.sliceFromValues(rs)
			}
		}
		return v
	case *types.Pointer:
		return v
	}
	if types.Identical(fu, tu) {
		return v
	}
	panic(vm.fail("unsupported conversion %v -> %v", from, to))
}

func (vm *VM) runeToString(r *Term, signed bool) StrV {
	r = mkZext(r, 32)
	if r.S.W > 32 {
		r = mkExtract(31, 0, r)
	}
	if r.IsConst() {
		return mkStr(string(rune(int32(r.K))))
	}
	b := func(t *Term) *Term { return mkExtract(7, 0, t) }
	k := func(v uint64) *Term { return mkBV(32, v) }
	lt := func(v uint64) *Term { return mkBVCmp("bvult", r, k(v)) }
	switch {
	case vm.branch(lt(0x80)):
		return strFromBytes([]*Term{b(r)})
	case vm.branch(lt(0x800)):
		return strFromBytes([]*Term{
			b(mkBVBin("bvor", k(0xC0), mkBVBin("bvlshr", r, k(6)))),
			b(mkBVBin("bvor", k(0x80), mkBVBin("bvand", r, k(0x3F))))})
	case vm.branch(mkOr(mkAnd(mkBVCmp("bvuge", r, k(0xD800)), lt(0xE000)), mkBVCmp("bvugt", r, k(0x10FFFF)))):
		return mkStr("�")
	case vm.branch(lt(0x10000)):
		return strFromBytes([]*Term{
			b(mkBVBin("bvor", k(0xE0), mkBVBin("bvlshr", r, k(12)))),
			b(mkBVBin("bvor", k(0x80), mkBVBin("bvand", mkBVBin("bvlshr", r, k(6)), k(0x3F)))),
			b(mkBVBin("bvor", k(0x80), mkBVBin("bvand", r, k(0x3F))))})
	default:
		return strFromBytes([]*Term{
			b(mkBVBin("bvor", k(0xF0), mkBVBin("bvlshr", r, k(18)))),
			b(mkBVBin("bvor", k(0x80), mkBVBin("bvand", mkBVBin("bvlshr", r, k(12)), k(0x3F)))),
			b(mkBVBin("bvor", k(0x80), mkBVBin("bvand", mkBVBin("bvlshr", r, k(6)), k(0x3F)))),
			b(mkBVBin("bvor", k(0x80), mkBVBin("bvand", r, k(0x3F))))})
	}
}

func (vm *VM) index(fr *Frame, x *ssa.Index) Value {
	coll := vm.get(fr, x.X)
	idx := vm.get(fr, x.Index).(*Term)
	signed := isSigned(x.Index.Type())
	switch c := coll.(type) {
	case *ArrayV:
		if !idx.IsConst() && allScalar(c.E) {
			o := vm.newObject(c, nil, "tmp-array")
			return vm.load(vm.symIndexPtr(o, nil, 0, len(c.E), idx, signed))
		}
		i := vm.concretizeIndex(idx, len(c.E), signed, "array index")
		return c.E[i]
	case StrV:
		return vm.strIndex(c, idx, signed)
	}
	panic(vm.fail("Index on %T", coll))
}

func (vm *VM) strIndex(s StrV, idx *Term, signed bool) Value {
	if idx.IsConst() {
		i := vm.concretizeIndex(idx, s.Len(), signed, "string index")
		return s.At(i)
	}
	// symbolic index: bounds fork, then an ite chain (no fork per position)
	if signed {
		idx = mkSext(idx, 64)
	} else {
		idx = mkZext(idx, 64)
	}
	if s.Len() == 0 {
		vm.goPanicRuntime("index out of range [symbolic] with length 0 (string index)")
	}
	inb := mkBVCmp("bvult", idx, mkBV(idx.S.W, uint64(s.Len())))
	if !vm.branch(inb) {
		vm.goPanicRuntime(fmt.Sprintf("index out of range [symbolic] with length %d (string index)", s.Len()))
	}
	r := s.At(s.Len() - 1)
	for i := s.Len() - 2; i >= 0; i-- {
		r = mkIte(mkEq(idx, mkBV(idx.S.W, uint64(i))), s.At(i), r)
	}
	return r
}

func allScalar(es []Value) bool {
	if len(es) == 0 {
		return false
	}
	w := -1
	for _, e := range es {
		t, ok := e.(*Term)
		if !ok {
			return false
		}
		k := int(t.S.K)*1000 + t.S.W
		if w == -1 {
			w = k
		} else if w != k {
			return false
		}
	}
	return true
}

// symIndexPtr builds a symbolic-index pointer after the bounds fork.
func (vm *VM) symIndexPtr(obj *Object, path []int, off, n int, idx *Term, signed bool) PtrV {
	var wide *Term
	if signed {
		wide = mkSext(idx, 64)
	} else {
		wide = mkZext(idx, 64)
	}
	inb := mkBVCmp("bvult", wide, mkBV(64, uint64(n)))
	if !vm.branch(inb) {
		vm.goPanicRuntime(fmt.Sprintf("index out of range [symbolic] with length %d", n))
	}
	return PtrV{Obj: obj, Path: path, Sym: wide, SymOff: off, SymLen: n}
}

func (vm *VM) indexAddr(fr *Frame, x *ssa.IndexAddr) Value {
	coll := vm.get(fr, x.X)
	idx := vm.get(fr, x.Index).(*Term)
	signed := isSigned(x.Index.Type())
	switch c := coll.(type) {
	case SliceV:
		if !idx.IsConst() && c.Arr != nil && c.Len > 0 && allScalar(vm.sliceElems(c)) {
			return vm.symIndexPtr(c.Arr, c.Path, c.Off, c.Len, idx, signed)
		}
		i := vm.concretizeIndex(idx, c.Len, signed, "slice index")
		np := make([]int, len(c.Path)+1)
		copy(np, c.Path)
		np[len(c.Path)] = c.Off + i
		return PtrV{Obj: c.Arr, Path: np}
	case PtrV:
		if c.Obj == nil {
			vm.goPanicRuntime("nil pointer dereference (array index)")
		}
		arr := vm.navigate(c.Obj.Val, c.Path).(*ArrayV)
		if !idx.IsConst() && allScalar(arr.E) {
			return vm.symIndexPtr(c.Obj, c.Path, 0, len(arr.E), idx, signed)
		}
		i := vm.concretizeIndex(idx, len(arr.E), signed, "array index")
		return ptrField(c, i)
	}
	panic(vm.fail("IndexAddr on %T", coll))
}

func (vm *VM) lookup(fr *Frame, x *ssa.Lookup) Value {
	coll := vm.get(fr, x.X)
	switch c := coll.(type) {
	case StrV:
		return vm.strIndex(c, vm.get(fr, x.Index).(*Term), isSigned(x.Index.Type()))
	case MapV:
		v, ok := vm.mapLookup(c, vm.get(fr, x.Index))
		if !ok {
			v = vm.zero(x.X.Type().Underlying().(*types.Map).Elem())
		}
		if x.CommaOk {
			return TupleV{v, mkBool(ok)}
		}
		return v
	}
	panic(vm.fail("Lookup on %T", coll))
}

func (vm *VM) optIndex(fr *Frame, v ssa.Value, def int, max int, what string) int {
	if v == nil {
		return def
	}
	t := vm.get(fr, v).(*Term)
	if t.IsConst() {
		i := t.Int()
		if !isSigned(v.Type()) && t.Uint() > math.MaxInt64 {
			i = -1
		}
		if i < 0 || i > int64(max) {
			vm.goPanicRuntime(fmt.Sprintf("slice bounds out of range [%s %d] with capacity %d", what, i, max))
		}
		return int(i)
	}
	if isSigned(v.Type()) {
		t = mkSext(t, 64)
	} else {
		t = mkZext(t, 64)
	}
	inb := mkBVCmp("bvule", t, mkBV(t.S.W, uint64(max)))
	if !vm.branch(inb) {
		vm.goPanicRuntime(fmt.Sprintf("slice bounds out of range [%s symbolic] with capacity %d", what, max))
	}
	conds := make([]*Term, max+1)
	for i := 0; i <= max; i++ {
		conds[i] = mkEq(t, mkBV(t.S.W, uint64(i)))
	}
	k := vm.fork(conds, false)
	if k < 0 {
		panic(&pathEnd{"infeasible slice bound"})
	}
	return k
}

func (vm *VM) slice(fr *Frame, x *ssa.Slice) Value {
	coll := vm.get(fr, x.X)
	switch c := coll.(type) {
	case StrV:
		n := c.Len()
		lo := vm.optIndex(fr, x.Low, 0, n, "low")
		hi := vm.optIndex(fr, x.High, n, n, "high")
		if lo > hi {
			vm.goPanicRuntime(fmt.Sprintf("slice bounds out of range [%d:%d]", lo, hi))
		}
		return c.Slice(lo, hi)
	case SliceV:
		lo := vm.optIndex(fr, x.Low, 0, c.Cap, "low")
		hi := vm.optIndex(fr, x.High, c.Len, c.Cap, "high")
		mx := vm.optIndex(fr, x.Max, c.Cap, c.Cap, "max")
		if lo > hi || hi > mx {
			vm.goPanicRuntime(fmt.Sprintf("slice bounds out of range [%d:%d:%d]", lo, hi, mx))
		}
		if c.Arr == nil {
			return SliceV{}
		}
		return SliceV{Arr: c.Arr, Path: c.Path, Off: c.Off + lo, Len: hi - lo, Cap: mx - lo}
	case PtrV:
		if c.Obj == nil {
			vm.goPanicRuntime("nil pointer dereference (slice of array pointer)")
		}
		arr := vm.navigate(c.Obj.Val, c.Path).(*ArrayV)
		n := len(arr.E)
		lo := vm.optIndex(fr, x.Low, 0, n, "low")
		hi := vm.optIndex(fr, x.High, n, n, "high")
		mx := vm.optIndex(fr, x.Max, n, n, "max")
		if lo > hi || hi > mx {
			vm.goPanicRuntime(fmt.Sprintf("slice bounds out of range [%d:%d:%d]", lo, hi, mx))
		}
		return SliceV{Arr: c.Obj, Path: c.Path, Off: lo, Len: hi - lo, Cap: mx - lo}
	}
	panic(vm.fail("Slice on %T", coll))
}

func (vm *VM) typeAssert(fr *Frame, x *ssa.TypeAssert) Value {
	iv := vm.get(fr, x.X).(IfaceV)
	ok := false
	var res Value
	if it, isIface := x.AssertedType.Underlying().(*types.Interface); isIface {
		if iv.Dyn != nil {
			ok = vm.implements(iv.Dyn, it)
		}
		if ok {
			res = iv
		} else {
			res = IfaceV{}
		}
	} else {
		if dt, isT := iv.Dyn.(types.Type); isT && types.Identical(dt, x.AssertedType) {
			ok = true
			res = iv.V
		} else {
			res = vm.zero(x.AssertedType)
		}
	}
	if x.CommaOk {
		return TupleV{res, mkBool(ok)}
	}
	if !ok {
		vm.goPanicRuntime(fmt.Sprintf("interface conversion: %s is not %v", dynName(iv.Dyn), x.AssertedType))
	}
	return res
}

func (vm *VM) implements(dyn interface{}, it *types.Interface) bool {
	switch d := dyn.(type) {
	case types.Type:
		return types.Implements(d, it)
	case *SynType:
		for i := 0; i < it.NumMethods(); i++ {
			if _, ok := vm.intr["syn:"+d.Name+"."+it.Method(i).Name()]; !ok {
				return false
			}
		}
		return true
	}
	return false
}

// ---- range ----

type rangeIter struct {
	str    StrV
	isStr  bool
	pos    int
	m      MapV
	keys   []MapEntry
}

func (vm *VM) makeRange(v Value) Value {
	switch x := v.(type) {
	case StrV:
		return &rangeIter{str: x, isStr: true}
	case MapV:
		it := &rangeIter{m: x}
		if x.Obj != nil {
			vm.noteAccess(PtrV{Obj: x.Obj}, false)
			md := x.Obj.Val.(*MapData)
			it.keys = append(it.keys, md.E...)
			if vm.cfg.PermuteMaps && len(it.keys) > 1 {
				it.keys = vm.permute(it.keys)
			}
		}
		return it
	}
	panic(vm.fail("Range over %T", v))
}

func (vm *VM) permute(es []MapEntry) []MapEntry {
	rest := append([]MapEntry(nil), es...)
	var out []MapEntry
	for len(rest) > 1 {
		k := vm.chooseLogged(len(rest))
		out = append(out, rest[k])
		rest = append(rest[:k], rest[k+1:]...)
	}
	return append(out, rest...)
}

func (vm *VM) next(it *rangeIter, x *ssa.Next) Value {
	if it.isStr {
		if it.pos >= it.str.Len() {
			return TupleV{tFalse, mkBV(64, 0), mkBV(32, 0)}
		}
		b := it.str.At(it.pos)
		start := it.pos
		ascii := mkBVCmp("bvult", b, mkBV(8, 0x80))
		if vm.branch(ascii) {
			it.pos++
			return TupleV{tTrue, mkBV(64, uint64(start)), mkZext(b, 32)}
		}
		r, size := vm.decodeRune(it.str.Slice(it.pos, it.str.Len()))
		it.pos += size
		return TupleV{tTrue, mkBV(64, uint64(start)), r}
	}
	for it.pos < len(it.keys) {
		e := it.keys[it.pos]
		it.pos++
		// skip entries deleted meanwhile (concrete identity check only)
		if it.m.Obj != nil {
			vm.noteAccess(PtrV{Obj: it.m.Obj}, false)
			present := false
			maybe := false
			cur := it.m.Obj.Val.(*MapData)
			var curV Value
			for _, ce := range cur.E {
				c := vm.valueEq(ce.K, e.K)
				if c.isTrue() {
					present = true
					curV = ce.V
					break
				}
				if !c.isFalse() {
					maybe = true
				}
			}
			if !present && !maybe {
				continue
			}
			if present {
				return TupleV{tTrue, e.K, curV}
			}
		}
		return TupleV{tTrue, e.K, e.V}
	}
	var zk, zv Value = tFalse, tFalse
	return TupleV{tFalse, zk, zv}
}

// decodeRune runs the real unicode/utf8.DecodeRuneInString on s.
func (vm *VM) decodeRune(s StrV) (*Term, int) {
	fn := vm.ld.FuncByName("unicode/utf8", "DecodeRuneInString")
	if fn == nil || fn.Blocks == nil {
		panic(vm.fail("unicode/utf8.DecodeRuneInString not loaded with source"))
	}
	saved := vm.cur
	res := vm.callFunction(fn, []Value{s}, nil).(TupleV)
	vm.cur = saved
	size := res[1].(*Term)
	if !size.IsConst() {
		panic(vm.fail("symbolic rune size"))
	}
	return res[0].(*Term), int(size.Int())
}

// ---- builtins ----

func (vm *VM) callBuiltin(b *ssa.Builtin, args []Value, site ssa.Instruction) Value {
	switch b.Name() {
	case "len":
		switch x := args[0].(type) {
		case StrV:
			return mkBV(64, uint64(x.Len()))
		case SliceV:
			return mkBV(64, uint64(x.Len))
		case MapV:
			return mkBV(64, uint64(vm.mapLen(x)))
		case ChanV:
			if x.Obj == nil {
				return mkBV(64, 0)
			}
			return mkBV(64, uint64(len(x.Obj.Val.(*ChanData).Q)))
		case PtrV:
			if x.Obj == nil {
				return mkBV(64, 0)
			}
			return mkBV(64, uint64(len(vm.navigate(x.Obj.Val, x.Path).(*ArrayV).E)))
		case *ArrayV:
			return mkBV(64, uint64(len(x.E)))
		}
	case "cap":
		switch x := args[0].(type) {
		case SliceV:
			return mkBV(64, uint64(x.Cap))
		case ChanV:
			if x.Obj == nil {
				return mkBV(64, 0)
			}
			return mkBV(64, uint64(x.Obj.Val.(*ChanData).Cap))
		case *ArrayV:
			return mkBV(64, uint64(len(x.E)))
		}
	case "append":
		s := args[0].(SliceV)
		var add []Value
		switch y := args[1].(type) {
		case SliceV:
			add = vm.sliceElems(y)
		case StrV:
			for _, t := range y.Bytes() {
				add = append(add, t)
			}
		}
		if len(add) == 0 {
			return s
		}
		if s.Arr != nil && s.Len+len(add) <= s.Cap {
			vm.writeSlice(SliceV{Arr: s.Arr, Path: s.Path, Off: s.Off, Len: s.Cap, Cap: s.Cap}, s.Len, add)
			return SliceV{Arr: s.Arr, Path: s.Path, Off: s.Off, Len: s.Len + len(add), Cap: s.Cap}
		}
		nl := s.Len + len(add)
		nc := nl
		if s.Cap*2 > nc {
			nc = s.Cap * 2
		}
		e := make([]Value, nc)
		copy(e, vm.sliceElems(s))
		copy(e[s.Len:], add)
		if nc > nl {
			var z Value
			if len(add) > 0 {
				z = zeroLike(add[0])
			}
			for i := nl; i < nc; i++ {
				e[i] = z
			}
		}
		return SliceV{Arr: vm.newArrayObj(e, nil), Len: nl, Cap: nc}
	case "copy":
		d := args[0].(SliceV)
		var src []Value
		switch y := args[1].(type) {
		case SliceV:
			src = vm.sliceElems(y)
			if y.Arr != nil {
				vm.noteAccess(PtrV{Obj: y.Arr}, false)
			}
		case StrV:
			for _, t := range y.Bytes() {
				src = append(src, t)
			}
		}
		n := len(src)
		if d.Len < n {
			n = d.Len
		}
		if n > 0 {
			cp := make([]Value, n)
			copy(cp, src[:n])
			vm.writeSlice(d, 0, cp)
		}
		return mkBV(64, uint64(n))
	case "delete":
		vm.mapDelete(args[0].(MapV), args[1])
		return nil
	case "close":
		vm.chanClose(args[0].(ChanV))
		return nil
	case "print", "println":
		return nil
	case "recover":
		if n := len(vm.panicStack); n > 0 && !vm.panicStack[n-1].recovered {
			gp := vm.panicStack[n-1]
			gp.recovered = true
			if gp.runtime != "" {
				return IfaceV{Dyn: synRuntimeError, V: mkStr("runtime error: " + gp.runtime)}
			}
			return gp.val
		}
		return IfaceV{}
	case "min", "max":
		r := args[0]
		for _, a := range args[1:] {
			switch x := r.(type) {
			case *Term:
				y := a.(*Term)
				var lt *Term
				t := site.(*ssa.Call).Type()
				if x.S.K == SFP {
					lt = mkFPCmp("fp.lt", x, y)
				} else if isSigned(t) {
					lt = mkBVCmp("bvslt", x, y)
				} else {
					lt = mkBVCmp("bvult", x, y)
				}
				if b.Name() == "min" {
					r = mkIte(lt, x, y)
				} else {
					r = mkIte(lt, y, x)
				}
			default:
				panic(vm.fail("min/max on %T", r))
			}
		}
		return r
	case "clear":
		switch x := args[0].(type) {
		case MapV:
			if x.Obj != nil {
				vm.setObj(x.Obj, &MapData{})
			}
		default:
			panic(vm.fail("clear on %T", x))
		}
		return nil
	case "SliceData":
		sl := args[0].(SliceV)
		if sl.Arr == nil {
			return PtrV{}
		}
		np := make([]int, len(sl.Path)+1)
		copy(np, sl.Path)
		np[len(sl.Path)] = sl.Off
		return PtrV{Obj: sl.Arr, Path: np}
	case "String":
		p := args[0].(PtrV)
		n := vm.concreteInt(args[1].(*Term), "unsafe.String len")
		if n == 0 {
			return StrV{}
		}
		if p.Obj == nil || len(p.Path) == 0 {
			panic(vm.fail("unsafe.String on unsupported pointer"))
		}
		arr := vm.navigate(p.Obj.Val, p.Path[:len(p.Path)-1]).(*ArrayV)
		off := p.Path[len(p.Path)-1]
		b := make([]*Term, n)
		for i := 0; i < n; i++ {
			b[i] = arr.E[off+i].(*Term)
		}
		return strFromBytes(b)
	case "StringData":
		sv := args[0].(StrV)
		if sv.Len() == 0 {
			return PtrV{}
		}
		bs := vm.byteSliceFromStr(sv)
		return PtrV{Obj: bs.Arr, Path: []int{0}}
	case "Slice":
		p := args[0].(PtrV)
		n := vm.concreteInt(args[1].(*Term), "unsafe.Slice len")
		if p.Obj == nil {
			return SliceV{}
		}
		if len(p.Path) == 0 {
			panic(vm.fail("unsafe.Slice on unsupported pointer"))
		}
		return SliceV{Arr: p.Obj, Path: p.Path[:len(p.Path)-1], Off: p.Path[len(p.Path)-1], Len: n, Cap: n}
	case "ssa:wrapnilchk":
		if p, ok := args[0].(PtrV); ok && p.Obj == nil {
			vm.goPanicRuntime("value method called using nil pointer")
		}
		return args[0]
	}
	panic(vm.fail("unsupported builtin %s on %T", b.Name(), args[0]))
}

func zeroLike(v Value) Value {
	switch x := v.(type) {
	case *Term:
		switch x.S.K {
		case SBool:
			return tFalse
		case SFP:
			return mkFP(0)
		}
		return mkBV(x.S.W, 0)
	case StrV:
		return StrV{}
	case PtrV:
		return PtrV{}
	case IfaceV:
		return IfaceV{}
	case SliceV:
		return SliceV{}
	case MapV:
		return MapV{}
	case *FuncV:
		return (*FuncV)(nil)
	case *StructV:
		f := make([]Value, len(x.F))
		for i := range f {
			f[i] = zeroLike(x.F[i])
		}
		return &StructV{F: f}
	case *ArrayV:
		e := make([]Value, len(x.E))
		for i := range e {
			e[i] = zeroLike(x.E[i])
		}
		return &ArrayV{E: e}
	}
	return v
}

var synRuntimeError = &SynType{Name: "runtime.Error"}

// sortedKeys is a helper for deterministic output.
func sortedKeys(m map[string]int) []string {
	ks := make([]string, 0, len(m))
	for k := range m {
		ks = append(ks, k)
	}
	sort.Strings(ks)
	return ks
}


// ---- loops that never end -------------------------------------------------------------------
//
// A loop of repository code that has gone round more than 8 times is watched.  If one whole
// iteration then (a) consumes no decision and no nondeterministic value, (b) changes no object
// that existed when the iteration began (writes to objects the iteration itself allocated do not
// count, nor do writes that store the value that is already there), (c) runs no model with effects
// - every intrinsic counts as one unless it is on the short list of pure ones, successful lock
// operations and every file-system / channel operation count - and (d) arrives at the loop header
// with the same local values, then the next iteration will do exactly the same: the operation
// never completes.  That is reported as a violation (not as an exhausted unwinding bound).
type loopWatch struct {
	fr        *Frame
	header    int
	progress  int
	watermark int // objects with a larger ID were allocated during the current iteration
	pos       int
	nondets   int
	locals    string
}

func pureIntrinsic(name string) bool {
	switch {
	case strings.HasPrefix(name, "log/slog."), strings.HasPrefix(name, "strings."), strings.HasPrefix(name, "fmt.Sprint"),
		strings.HasPrefix(name, "fmt.Errorf"), strings.HasPrefix(name, "errors."), strings.HasPrefix(name, "strconv."),
		strings.HasPrefix(name, "internal/strconv."), strings.HasPrefix(name, "(time.Time)."), strings.HasPrefix(name, "(time.Duration)."),
		strings.HasPrefix(name, "path/filepath.Join"), strings.HasPrefix(name, "path/filepath.Clean"):
		return true
	case strings.HasSuffix(name, ").Load"), strings.HasSuffix(name, ").TryLock"), strings.HasSuffix(name, ").TryRLock"),
		strings.HasSuffix(name, ").Store"), strings.HasSuffix(name, ").Lock"), strings.HasSuffix(name, ").RLock"),
		strings.HasSuffix(name, ").Unlock"), strings.HasSuffix(name, ").RUnlock"), strings.HasSuffix(name, ").Add"),
		strings.HasSuffix(name, ").Swap"), strings.HasSuffix(name, ").CompareAndSwap"):
		// sync / atomic models: the lock states are part of the per-iteration fingerprint, atomic
		// stores go through the heap-write comparison
		return strings.Contains(name, "sync")
	case name == "maps.clone", name == "maps.Clone":
		return true // allocates a new map, changes nothing that exists
	case name == "time.Now", name == "time.Since", name == "time.Until":
		return true // the clock model ticks itself when it hands out a new instant
	}
	return false
}

func (vm *VM) tickProgress() {
	if vm.watch != nil {
		vm.watch.progress++
	}
}

func (vm *VM) localsFingerprint(fr *Frame) string {
	var sb strings.Builder
	// the state of every lock (lock operations are not "progress" by themselves: an iteration
	// that takes and releases the same locks leaves them as they were)
	keys := make([]string, 0, len(vm.P.locks))
	for k := range vm.P.locks {
		keys = append(keys, k)
	}
	sort.Strings(keys)
	for _, k := range keys {
		ls := vm.P.locks[k]
		fmt.Fprintf(&sb, "%s:%v,%d,%d,%v|", k, ls.w, ls.r, ls.owner, ls.other)
	}
	for _, v := range fr.env {
		if v == nil {
			sb.WriteString("_;")
			continue
		}
		sb.WriteString(showValue(v))
		sb.WriteByte(';')
	}
	return sb.String()
}

func (vm *VM) loopProgress(fr *Frame, header int, count int) {
	w := vm.watch
	if w != nil && (w.fr != fr || w.header != header) {
		// another loop's back edge: it belongs to the watched iteration (or the watched frame is gone)
		alive := false
		for f := vm.cur; f != nil; f = f.caller {
			if f == w.fr {
				alive = true
			}
		}
		if alive {
			return
		}
		vm.watch, w = nil, nil
	}
	if w == nil {
		if count <= 8 || !fr.info.repoFunc || vm.P.curThread == 2 {
			return
		}
		vm.watch = &loopWatch{fr: fr, header: header, watermark: vm.objCounter, pos: vm.P.pos, nondets: len(vm.P.nondets), locals: vm.localsFingerprint(fr)}
		return
	}
	loc := vm.localsFingerprint(fr)
	if os.Getenv("GOSYM_LOOPDBG") != "" {
		fmt.Fprintf(os.Stderr, "LOOPDBG header %s#%d progress=%d pos %d->%d nondets %d->%d localsSame=%v\n", fr.fn.Name(), header, w.progress, w.pos, vm.P.pos, w.nondets, len(vm.P.nondets), w.locals == loc)
	}
	if w.progress == 0 && w.pos == vm.P.pos && w.nondets == len(vm.P.nondets) && w.locals == loc {
		vm.P.Oblig++
		vm.recordViolation("livelock.loop-without-progress", fmt.Sprintf("a whole iteration of the loop in %s changed nothing and decided nothing: it never ends", fr.fn), tTrue)
		panic(&pathEnd{"livelock"})
	}
	w.progress, w.watermark, w.pos, w.nondets, w.locals = 0, vm.objCounter, vm.P.pos, len(vm.P.nondets), loc
}
