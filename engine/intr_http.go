package main

// Models for net/http, net/url, context, crypto stubs, database stubs, singleflight.

import (
	"os"
	"fmt"
	"go/types"
	"net/http"
	"net/url"
	"strings"

	"golang.org/x/tools/go/ssa"
)

// ---- struct field helpers ----

func structOf(t types.Type) *types.Struct {
	if p, ok := t.Underlying().(*types.Pointer); ok {
		t = p.Elem()
	}
	st, _ := t.Underlying().(*types.Struct)
	return st
}

func fieldIdx(vm *VM, t types.Type, name string) int {
	st := structOf(t)
	if st == nil {
		panic(vm.fail("fieldIdx: %v is not a struct", t))
	}
	for i := 0; i < st.NumFields(); i++ {
		if st.Field(i).Name() == name {
			return i
		}
	}
	panic(vm.fail("fieldIdx: no field %s in %v", name, t))
}

func (vm *VM) getF(p PtrV, name string) Value {
	if p.Obj == nil {
		vm.goPanicRuntime("nil pointer dereference (" + name + ")")
	}
	t := vm.typeAt(p)
	return vm.load(ptrField(p, fieldIdx(vm, t, name)))
}

func (vm *VM) setF(p PtrV, name string, v Value) {
	t := vm.typeAt(p)
	vm.store(ptrField(p, fieldIdx(vm, t, name)), v)
}

// typeAt returns the static type of the location p points to.
func (vm *VM) typeAt(p PtrV) types.Type {
	t := p.Obj.Typ
	for _, i := range p.Path {
		if t == nil {
			break
		}
		switch u := t.Underlying().(type) {
		case *types.Struct:
			t = u.Field(i).Type()
		case *types.Array:
			t = u.Elem()
		default:
			t = nil
		}
	}
	if t == nil {
		panic(vm.fail("typeAt: untyped object %s", p.Obj.Name))
	}
	return t
}

func (vm *VM) newStruct(t types.Type, name string) PtrV {
	return PtrV{Obj: vm.newObject(vm.zero(t), t, name)}
}

// typeByName finds a named type in a (possibly body-less) package.
func (vm *VM) typeByName(pkg, name string) types.Type {
	p := vm.ld.Pkgs[pkg]
	if p == nil {
		panic(vm.fail("package %s not in the program", pkg))
	}
	o := p.Pkg.Scope().Lookup(name)
	if o == nil {
		panic(vm.fail("type %s.%s not found", pkg, name))
	}
	return o.Type()
}

// invokeByName calls method `name` on an interface value.
func (vm *VM) invokeByName(iv IfaceV, name string, args ...Value) Value {
	if iv.Dyn == nil {
		vm.goPanicRuntime("nil interface method call " + name)
	}
	switch d := iv.Dyn.(type) {
	case *SynType:
		in, ok := vm.intr["syn:"+d.Name+"."+name]
		if !ok {
			panic(vm.fail("no model for method syn:%s.%s", d.Name, name))
		}
		return in(vm, nil, append([]Value{iv.V}, args...))
	case types.Type:
		fn := vm.findMethod(d, name)
		if fn == nil {
			panic(vm.fail("method %s not found on %v", name, d))
		}
		saved := vm.cur
		r := vm.callFunction(fn, append([]Value{iv.V}, args...), nil)
		vm.cur = saved
		return r
	}
	return nil
}

// ---- http.Header over the engine's map representation ----

func canonKey(vm *VM, v Value) string {
	s := v.(StrV)
	if s.Sym || s.Opaque() {
		panic(vm.fail("symbolic header name"))
	}
	return http.CanonicalHeaderKey(s.C)
}

func (vm *VM) hdrGetAll(h MapV, key string) []Value {
	v, ok := vm.mapLookup(h, mkStr(key))
	if !ok {
		return nil
	}
	return vm.sliceElems(v.(SliceV))
}

func (vm *VM) hdrSet(h MapV, key string, vals []Value) {
	vm.mapStore(h, mkStr(key), vm.sliceFromValues(vals))
}

func addHTTP(m map[string]Intrinsic) {
	for _, ty := range []string{"net/http.Header", "net/textproto.MIMEHeader"} {
		ty := ty
		m["("+ty+").Get"] = func(vm *VM, fn *ssa.Function, args []Value) Value {
			vs := vm.hdrGetAll(args[0].(MapV), canonKey(vm, args[1]))
			if len(vs) == 0 {
				return StrV{}
			}
			return vs[0]
		}
		m["("+ty+").Values"] = func(vm *VM, fn *ssa.Function, args []Value) Value {
			v, ok := vm.mapLookup(args[0].(MapV), mkStr(canonKey(vm, args[1])))
			if !ok {
				return SliceV{}
			}
			return v
		}
		m["("+ty+").Set"] = func(vm *VM, fn *ssa.Function, args []Value) Value {
			vm.hdrSet(args[0].(MapV), canonKey(vm, args[1]), []Value{args[2]})
			return nil
		}
		m["("+ty+").Add"] = func(vm *VM, fn *ssa.Function, args []Value) Value {
			h := args[0].(MapV)
			k := canonKey(vm, args[1])
			vs := append(append([]Value(nil), vm.hdrGetAll(h, k)...), args[2])
			vm.hdrSet(h, k, vs)
			return nil
		}
		m["("+ty+").Del"] = func(vm *VM, fn *ssa.Function, args []Value) Value {
			vm.mapDelete(args[0].(MapV), mkStr(canonKey(vm, args[1])))
			return nil
		}
	}
	m["(net/http.Header).Clone"] = func(vm *VM, fn *ssa.Function, args []Value) Value {
		return vm.cloneHeader(args[0].(MapV))
	}
	m["net/http.CanonicalHeaderKey"] = func(vm *VM, fn *ssa.Function, args []Value) Value {
		return mkStr(canonKey(vm, args[0]))
	}
	m["net/textproto.CanonicalMIMEHeaderKey"] = m["net/http.CanonicalHeaderKey"]

	// --- requests ---
	m["(*net/http.Request).Context"] = func(vm *VM, fn *ssa.Function, args []Value) Value {
		p := args[0].(PtrV)
		if c := vm.getF(p, "ctx").(IfaceV); c.Dyn != nil {
			return c
		}
		return vm.backgroundCtx()
	}
	m["(*net/http.Request).WithContext"] = func(vm *VM, fn *ssa.Function, args []Value) Value {
		p := args[0].(PtrV)
		np := PtrV{Obj: vm.newObject(vm.load(p), p.Obj.Typ, "http.Request")}
		vm.setF(np, "ctx", args[1])
		return np
	}
	m["(*net/http.Request).Clone"] = func(vm *VM, fn *ssa.Function, args []Value) Value {
		p := args[0].(PtrV)
		if p.Obj == nil {
			vm.goPanicRuntime("nil pointer dereference (Request.Clone)")
		}
		np := PtrV{Obj: vm.newObject(vm.load(p), p.Obj.Typ, "http.Request(clone)")}
		vm.setF(np, "ctx", args[1])
		if h := vm.getF(p, "Header").(MapV); h.Obj != nil {
			vm.setF(np, "Header", vm.cloneHeader(h))
		}
		if u := vm.getF(p, "URL").(PtrV); u.Obj != nil {
			vm.setF(np, "URL", PtrV{Obj: vm.newObject(vm.load(u), u.Obj.Typ, "url.URL(clone)")})
		}
		return np
	}
	m["(*net/http.Request).Cookie"] = func(vm *VM, fn *ssa.Function, args []Value) Value {
		p := args[0].(PtrV)
		name := constStr(vm, args[1], "Cookie name")
		ct := vm.typeByName("net/http", "Cookie")
		for _, line := range vm.hdrGetAll(vm.getF(p, "Header").(MapV), "Cookie") {
			l := line.(StrV)
			// model: the harness puts exactly "name=value" in the Cookie header
			pre := mkStr(name + "=")
			if l.Opaque() || l.Len() < pre.Len() {
				continue
			}
			if c := strEq(l.Slice(0, pre.Len()), pre); c.isTrue() || (!c.isFalse() && vm.branch(c)) {
				ck := vm.newStruct(ct, "http.Cookie")
				vm.setF(ck, "Name", mkStr(name))
				vm.setF(ck, "Value", l.Slice(pre.Len(), l.Len()))
				return TupleV{ck, IfaceV{}}
			}
		}
		return TupleV{PtrV{}, vm.globalIface("net/http", "ErrNoCookie")}
	}
	m["net/http.Error"] = func(vm *VM, fn *ssa.Function, args []Value) Value {
		w := args[0].(IfaceV)
		h := vm.invokeByName(w, "Header").(MapV)
		vm.mapDelete(h, mkStr("Content-Length"))
		vm.hdrSet(h, "Content-Type", []Value{mkStr("text/plain; charset=utf-8")})
		vm.hdrSet(h, "X-Content-Type-Options", []Value{mkStr("nosniff")})
		vm.invokeByName(w, "WriteHeader", args[2])
		vm.invokeByName(w, "Write", vm.byteSliceFromStr(strConcat(args[1].(StrV), mkStr("\n"))))
		return nil
	}
	m["net/http.SetCookie"] = func(vm *VM, fn *ssa.Function, args []Value) Value {
		w := args[0].(IfaceV)
		ck := args[1].(PtrV)
		h := vm.invokeByName(w, "Header").(MapV)
		val := strConcat(strConcat(vm.getF(ck, "Name").(StrV), mkStr("=")), vm.getF(ck, "Value").(StrV))
		vs := append(append([]Value(nil), vm.hdrGetAll(h, "Set-Cookie")...), val)
		vm.hdrSet(h, "Set-Cookie", vs)
		return nil
	}
	m["(net/http.HandlerFunc).ServeHTTP"] = func(vm *VM, fn *ssa.Function, args []Value) Value {
		return vm.callValue(args[0], []Value{args[1], args[2]}, nil)
	}
	m["net/http.NewServeMux"] = func(vm *VM, fn *ssa.Function, args []Value) Value {
		return vm.newStruct(vm.typeByName("net/http", "ServeMux"), "ServeMux")
	}
	m["(*net/http.ServeMux).HandleFunc"] = func(vm *VM, fn *ssa.Function, args []Value) Value {
		vm.P.routes = append(vm.P.routes, route{pattern: args[1].(StrV), handler: args[2]})
		return nil
	}
	m["(*net/http.ServeMux).Handle"] = func(vm *VM, fn *ssa.Function, args []Value) Value {
		vm.P.routes = append(vm.P.routes, route{pattern: args[1].(StrV), handlerIface: args[2]})
		return nil
	}
	m["vocab.vRouteCount"] = func(vm *VM, fn *ssa.Function, args []Value) Value { return intV(len(vm.P.routes)) }
	m["vocab.vRoutePattern"] = func(vm *VM, fn *ssa.Function, args []Value) Value {
		return vm.P.routes[constInt(vm, args[0], "route index")].pattern
	}
	m["vocab.vRouteServe"] = func(vm *VM, fn *ssa.Function, args []Value) Value {
		r := vm.P.routes[constInt(vm, args[0], "route index")]
		if r.handler != nil {
			vm.callValue(r.handler, []Value{args[1], args[2]}, nil)
		} else {
			vm.invokeByName(r.handlerIface.(IfaceV), "ServeHTTP", args[1], args[2])
		}
		return nil
	}
	m["vocab.vMarkerCount"] = func(vm *VM, fn *ssa.Function, args []Value) Value {
		n := 0
		if v, ok := vm.P.env["marker:"+constStr(vm, args[0], "marker")]; ok {
			n = int(v.(*Term).Int())
		}
		return intV(n)
	}

	// --- context ---
	m["context.Background"] = func(vm *VM, fn *ssa.Function, args []Value) Value { return vm.backgroundCtx() }
	m["context.TODO"] = m["context.Background"]
	m["syn:context.Done"] = func(vm *VM, fn *ssa.Function, args []Value) Value {
		return args[0].(*StructV).F[0]
	}
	m["syn:context.Err"] = func(vm *VM, fn *ssa.Function, args []Value) Value {
		ch := args[0].(*StructV).F[0].(ChanV)
		if ch.Obj != nil && ch.Obj.Val.(*ChanData).Closed {
			return vm.globalIface("context", "Canceled")
		}
		return IfaceV{}
	}
	m["syn:context.Value"] = func(vm *VM, fn *ssa.Function, args []Value) Value { return IfaceV{} }
	m["syn:context.Deadline"] = func(vm *VM, fn *ssa.Function, args []Value) Value {
		return TupleV{mkTime(mkBV(64, 0)), tFalse}
	}
	m["context.WithCancel"] = func(vm *VM, fn *ssa.Function, args []Value) Value {
		ch := ChanV{Obj: vm.newObject(&ChanData{}, nil, "ctx.done")}
		ctx := IfaceV{Dyn: vm.synType("context"), V: &StructV{F: []Value{ch}}}
		cancel := &FuncV{Name: "cancel", Native: func(vm *VM, a []Value) Value {
			if !ch.Obj.Val.(*ChanData).Closed {
				vm.chanClose(ch)
				vm.fireAfterFuncs(ch)
			}
			return nil
		}}
		return TupleV{ctx, cancel}
	}
	// context.AfterFunc(ctx, f): f runs in its own goroutine once ctx is done (at once if it
	// already is); the returned stop() keeps an f that has not started from running
	m["context.AfterFunc"] = func(vm *VM, fn *ssa.Function, args []Value) Value {
		ctx, _ := args[0].(IfaceV)
		var ch ChanV
		if sv, ok := ctx.V.(*StructV); ok && len(sv.F) > 0 {
			ch, _ = sv.F[0].(ChanV)
		}
		rec := &afterFuncRec{f: args[1]}
		if os.Getenv("GOSYM_LOOPDBG") != "" {
			fmt.Fprintf(os.Stderr, "AFTERFUNC ctx=%s chObj=%v closed=%v\n", showValue(args[0]), ch.Obj != nil, ch.Obj != nil && ch.Obj.Val.(*ChanData).Closed)
		}
		stop := &FuncV{Name: "stopAfterFunc", Native: func(vm *VM, a []Value) Value {
			was := !rec.started && !rec.stopped
			rec.stopped = true
			return mkBool(was)
		}}
		if ch.Obj == nil {
			return stop // a context that is never done (Background)
		}
		if ch.Obj.Val.(*ChanData).Closed {
			vm.startAfterFunc(rec)
			return stop
		}
		vm.afterFuncs[ch.Obj] = append(vm.afterFuncs[ch.Obj], rec)
		return stop
	}
	m["(*golang.org/x/sync/singleflight.Group).Forget"] = func(vm *VM, fn *ssa.Function, args []Value) Value {
		vm.P.env["singleflight.forgotten"] = tTrue
		if os.Getenv("GOSYM_LOOPDBG") != "" {
			fmt.Fprintf(os.Stderr, "FORGET\n")
		}
		return nil
	}
	m["vocab.vCancelledCtx"] = func(vm *VM, fn *ssa.Function, args []Value) Value {
		ch := ChanV{Obj: vm.newObject(&ChanData{Closed: true}, nil, "ctx.done")}
		return IfaceV{Dyn: vm.synType("context"), V: &StructV{F: []Value{ch}}}
	}

	// --- url ---
	// what a URL looks like on the wire: computed natively when its parts are concrete
	concreteURL := func(vm *VM, u PtrV) (*url.URL, bool) {
		out := &url.URL{}
		for _, f := range []struct {
			name string
			dst  *string
		}{{"Scheme", &out.Scheme}, {"Host", &out.Host}, {"Path", &out.Path}, {"RawPath", &out.RawPath}, {"RawQuery", &out.RawQuery}, {"Fragment", &out.Fragment}} {
			sv, ok := vm.getF(u, f.name).(StrV)
			if !ok || sv.Sym || sv.Opaque() {
				return nil, false
			}
			*f.dst = sv.C
		}
		return out, true
	}
	m["(*net/url.URL).RequestURI"] = func(vm *VM, fn *ssa.Function, args []Value) Value {
		u := args[0].(PtrV)
		if cu, ok := concreteURL(vm, u); ok {
			return mkStr(cu.RequestURI())
		}
		// symbolic parts: the path is taken to need no escaping
		s := vm.getF(u, "Path").(StrV)
		if q := vm.getF(u, "RawQuery").(StrV); q.Len() > 0 {
			s = strConcat(strConcat(s, mkStr("?")), q)
		}
		vm.note("URL.RequestURI on symbolic parts: path assumed to need no escaping")
		return s
	}
	m["(*net/url.URL).EscapedPath"] = func(vm *VM, fn *ssa.Function, args []Value) Value {
		u := args[0].(PtrV)
		if cu, ok := concreteURL(vm, u); ok {
			return mkStr(cu.EscapedPath())
		}
		if v, ok := vm.cfg.Params["exactescape"]; ok && v == 0 {
			// bound control: beyond the lengths at which the real escaping code is interpreted
			// (one fork per byte), the path is taken to consist of bytes that need no escaping
			vm.note("URL.EscapedPath on symbolic parts: path assumed to need no escaping (exactescape=0)")
			return vm.getF(u, "Path").(StrV)
		}
		return vm.callBody(fn, args) // symbolic parts: the real escaping code is interpreted
	}
	m["net/url.ParseRequestURI"] = func(vm *VM, fn *ssa.Function, args []Value) Value {
		raw := args[0].(StrV)
		if raw.Sym || raw.Opaque() {
			panic(vm.fail("url.ParseRequestURI on symbolic text"))
		}
		pu, err := url.ParseRequestURI(raw.C)
		if err != nil {
			return TupleV{PtrV{}, vm.newErrorStr("parse " + raw.C + ": " + err.Error())}
		}
		u := vm.newStruct(vm.typeByName("net/url", "URL"), "url.URL")
		vm.setF(u, "Scheme", mkStr(pu.Scheme))
		vm.setF(u, "Host", mkStr(pu.Host))
		vm.setF(u, "Path", mkStr(pu.Path))
		vm.setF(u, "RawPath", mkStr(pu.RawPath))
		vm.setF(u, "RawQuery", mkStr(pu.RawQuery))
		vm.setF(u, "Fragment", mkStr(pu.Fragment))
		return TupleV{u, IfaceV{}}
	}
	m["net/url.Parse"] = func(vm *VM, fn *ssa.Function, args []Value) Value {
		raw := args[0].(StrV)
		ut := vm.typeByName("net/url", "URL")
		u := vm.newStruct(ut, "url.URL")
		if !raw.Sym && !raw.Opaque() {
			pu, err := url.Parse(raw.C)
			if err != nil {
				return TupleV{PtrV{}, vm.newErrorStr("parse " + raw.C + ": " + err.Error())}
			}
			vm.setF(u, "Scheme", mkStr(pu.Scheme))
			vm.setF(u, "Host", mkStr(pu.Host))
			vm.setF(u, "Path", mkStr(pu.Path))
			vm.setF(u, "RawPath", mkStr(pu.RawPath))
			vm.setF(u, "RawQuery", mkStr(pu.RawQuery))
			vm.setF(u, "Fragment", mkStr(pu.Fragment))
			return TupleV{u, IfaceV{}}
		}
		// symbolic text: only "scheme://" ++ host is supported (what addrToUrl builds)
		for _, sch := range []string{"https://", "http://"} {
			if raw.Len() >= len(sch) {
				if c := strEq(raw.Slice(0, len(sch)), mkStr(sch)); c.isTrue() {
					vm.setF(u, "Scheme", mkStr(strings.TrimSuffix(sch, "://")))
					vm.setF(u, "Host", raw.Slice(len(sch), raw.Len()))
					vm.note("url.Parse on a symbolic host: modelled as always succeeding with that host")
					return TupleV{u, IfaceV{}}
				}
			}
		}
		panic(vm.fail("url.Parse on symbolic text"))
	}
	m["(*net/url.URL).String"] = func(vm *VM, fn *ssa.Function, args []Value) Value {
		u := args[0].(PtrV)
		if u.Obj == nil {
			return mkStr("<nil>")
		}
		s := strConcat(vm.getF(u, "Scheme").(StrV), mkStr("://"))
		s = strConcat(s, vm.getF(u, "Host").(StrV))
		s = strConcat(s, vm.getF(u, "Path").(StrV))
		return s
	}

	// --- origin stub: http.DefaultClient.Do is a harness-provided Go function ---
	m["vocab.vSetOrigin"] = func(vm *VM, fn *ssa.Function, args []Value) Value {
		vm.P.env["origin"] = args[0]
		return nil
	}
	m["(*net/http.Client).Do"] = func(vm *VM, fn *ssa.Function, args []Value) Value {
		o, ok := vm.P.env["origin"]
		if !ok {
			panic(vm.fail("http.Client.Do without vSetOrigin"))
		}
		vm.lockEventLog("io", nil, true)
		return vm.callValue(o, []Value{args[1]}, nil)
	}
	// (*http.Response).Write(w): capture stub — the harness-registered sink receives it
	m["vocab.vSetResponseSink"] = func(vm *VM, fn *ssa.Function, args []Value) Value {
		vm.P.env["respsink"] = args[0]
		return nil
	}
	m["(*net/http.Response).Write"] = func(vm *VM, fn *ssa.Function, args []Value) Value {
		s, ok := vm.P.env["respsink"]
		if !ok {
			panic(vm.fail("http.Response.Write without vSetResponseSink"))
		}
		return vm.callValue(s, []Value{args[0]}, nil)
	}
	// --- CONNECT tunnel plumbing: TLS and request framing are outside; the request loop of
	// handleCONNECT is driven by a harness-provided request source ---
	m["crypto/tls.Server"] = func(vm *VM, fn *ssa.Function, args []Value) Value {
		// the handshake itself is outside; what the server would present is recorded: the first
		// certificate of the configuration it was given (vPresentedLeaf)
		if cfgp, ok := args[1].(PtrV); ok && cfgp.Obj != nil {
			if certs, ok := vm.getF(cfgp, "Certificates").(SliceV); ok && certs.Len > 0 {
				first := vm.sliceElems(certs)[0]
				if cs, ok := first.(*StructV); ok {
					ct := vm.typeByName("crypto/tls", "Certificate")
					vm.P.env["tls.presented"] = cs.F[fieldIdx(vm, ct, "Leaf")]
				}
			}
		}
		return vm.newStruct(vm.typeByName("crypto/tls", "Conn"), "tls.Conn")
	}
	m["vocab.vPresentedLeaf"] = func(vm *VM, fn *ssa.Function, args []Value) Value {
		if v, ok := vm.P.env["tls.presented"]; ok {
			return v
		}
		return PtrV{}
	}
	m["(*crypto/tls.Conn).Handshake"] = func(vm *VM, fn *ssa.Function, args []Value) Value { return IfaceV{} }
	m["(*crypto/tls.Conn).Close"] = func(vm *VM, fn *ssa.Function, args []Value) Value {
		vm.bumpMarker("tlsconn.close")
		return IfaceV{}
	}
	m["(*crypto/tls.Conn).Write"] = func(vm *VM, fn *ssa.Function, args []Value) Value {
		return TupleV{intV(args[1].(SliceV).Len), IfaceV{}}
	}
	// the client side of the tunnel always has the next request's bytes ready
	m["(*crypto/tls.Conn).Read"] = func(vm *VM, fn *ssa.Function, args []Value) Value {
		return TupleV{intV(args[1].(SliceV).Len), IfaceV{}}
	}
	m["bufio.NewReader"] = func(vm *VM, fn *ssa.Function, args []Value) Value {
		br := vm.newStruct(vm.typeByName("bufio", "Reader"), "bufio.Reader")
		vm.P.env[fmt.Sprintf("bufio.src:%d", br.Obj.ID)] = args[0] // the reader it draws from
		return br
	}
	// vNextRequestBytes(n): the request the source hands out next occupies n bytes of the
	// tunnel's byte stream (head and body); ReadRequest draws them from its reader
	m["vocab.vNextRequestBytes"] = func(vm *VM, fn *ssa.Function, args []Value) Value {
		vm.P.env["reqbytes"] = args[0]
		return nil
	}
	m["vocab.vSetRequestSource"] = func(vm *VM, fn *ssa.Function, args []Value) Value {
		vm.P.env["reqsource"] = args[0]
		return nil
	}
	m["net/http.ReadRequest"] = func(vm *VM, fn *ssa.Function, args []Value) Value {
		src, ok := vm.P.env["reqsource"]
		if !ok {
			return TupleV{PtrV{}, vm.globalIface("io", "EOF")}
		}
		delete(vm.P.env, "reqbytes")
		res := vm.callValue(src, nil, nil)
		nb, declared := vm.P.env["reqbytes"]
		if !declared {
			return res
		}
		// draw the declared number of bytes through the reader chain the proxy built (the real
		// Read methods of whatever wraps the connection are interpreted): a reader that runs dry
		// first means the request cannot be read
		need := int(nb.(*Term).Int())
		br, _ := args[0].(PtrV)
		under, has := vm.P.env[fmt.Sprintf("bufio.src:%d", br.Obj.ID)]
		if br.Obj == nil || !has {
			return res
		}
		buf := vm.makeSlice(types.Typ[types.Uint8], 32768, 32768)
		got := 0
		for got < need {
			want := need - got
			if want > 32768 {
				want = 32768
			}
			part := buf
			part.Len = want
			readM := vm.typeByName("io", "Reader").Underlying().(*types.Interface).Method(0)
			rv := vm.invokeMethod(under, readM, []Value{part}).(TupleV)
			n := int(rv[0].(*Term).Int())
			got += n
			if e, isErr := rv[1].(IfaceV); isErr && e.V != nil {
				if got < need {
					if got == 0 {
						return TupleV{PtrV{}, vm.globalIface("io", "EOF")}
					}
					return TupleV{PtrV{}, vm.globalIface("io", "ErrUnexpectedEOF")}
				}
				break
			}
			if n == 0 {
				break
			}
		}
		return res
	}
	m["(net/http.noBody).Read"] = func(vm *VM, fn *ssa.Function, args []Value) Value {
		return TupleV{intV(0), vm.globalIface("io", "EOF")}
	}
	m["(net/http.noBody).Close"] = func(vm *VM, fn *ssa.Function, args []Value) Value { return IfaceV{} }
	m["(*bufio.Writer).Flush"] = func(vm *VM, fn *ssa.Function, args []Value) Value { return IfaceV{} }

	// --- crypto / db stubs (C20, C11) ---
	m["crypto/rand.Text"] = func(vm *VM, fn *ssa.Function, args []Value) Value {
		n := 0
		if v, ok := vm.P.env["rand.text"]; ok {
			n = int(v.(*Term).Int())
		}
		n++
		vm.P.env["rand.text"] = intV(n)
		return mkStr(fmt.Sprintf("TOKEN%021d", n)) // 26 characters like rand.Text
	}
	m["crypto/rand.Read"] = func(vm *VM, fn *ssa.Function, args []Value) Value {
		return TupleV{intV(args[0].(SliceV).Len), IfaceV{}}
	}
	// vKDFInput(): (password, salt, time, memory, threads, keyLen) of the most recent argon2.IDKey call
	m["vocab.vKDFInput"] = func(vm *VM, fn *ssa.Function, args []Value) Value {
		if v, ok := vm.P.env["kdf.args"]; ok {
			return v
		}
		return TupleV{SliceV{}, SliceV{}, mkBV(32, 0), mkBV(32, 0), mkBV(8, 0), mkBV(32, 0)}
	}
	m["golang.org/x/crypto/argon2.IDKey"] = func(vm *VM, fn *ssa.Function, args []Value) Value {
		// the key derivation itself is trusted; what reservoir feeds it is recorded (copies)
		cp := func(v Value) Value {
			sl := v.(SliceV)
			return vm.sliceFromValues(append([]Value(nil), vm.sliceElems(sl)...))
		}
		vm.P.env["kdf.args"] = TupleV{cp(args[0]), cp(args[1]), args[2], args[3], args[4], args[5]}
		n := 4
		e := make([]Value, n)
		for i := range e {
			e[i] = vm.freshVar("kdf", bvSort(8))
		}
		return vm.sliceFromValues(e)
	}
	// the verdict of the constant-time comparison is the (trusted) password check outcome
	m["crypto/subtle.ConstantTimeCompare"] = func(vm *VM, fn *ssa.Function, args []Value) Value {
		k := vm.chooseLogged(2)
		vm.P.env["verdict"] = intV(k)
		return intV(k)
	}
	m["vocab.vLastVerdict"] = func(vm *VM, fn *ssa.Function, args []Value) Value {
		if v, ok := vm.P.env["verdict"]; ok {
			return v
		}
		return intV(-1)
	}
	m["reservoir/db/stores.OpenUserStore"] = func(vm *VM, fn *ssa.Function, args []Value) Value {
		st := fn.Signature.Results().At(0).Type().(*types.Pointer).Elem()
		if f, ok := vm.P.env["db.openfails"]; ok && f.(*Term).BoolVal() {
			return TupleV{PtrV{}, vm.newErrorStr("db open failed")}
		}
		return TupleV{vm.newStruct(st, "UserStore"), IfaceV{}}
	}
	m["(*reservoir/db/stores.UserStore).Close"] = func(vm *VM, fn *ssa.Function, args []Value) Value { return IfaceV{} }
	userLookup := func(vm *VM, fn *ssa.Function, args []Value) Value {
		// nondet: no such user | the harness-registered user row | error
		u, ok := vm.P.env["db.user"]
		switch vm.chooseLogged(3) {
		case 0:
			return TupleV{PtrV{}, IfaceV{}}
		case 1:
			if !ok {
				return TupleV{PtrV{}, IfaceV{}}
			}
			vm.P.env["db.userfound"] = tTrue
			return TupleV{u, IfaceV{}}
		}
		return TupleV{PtrV{}, vm.newErrorStr("db error")}
	}
	m["(*reservoir/db/stores.UserStore).GetByUsername"] = userLookup
	m["(*reservoir/db/stores.UserStore).GetByID"] = userLookup
	m["(*reservoir/db/stores.UserStore).Save"] = func(vm *VM, fn *ssa.Function, args []Value) Value {
		vm.bumpMarker("db.save")
		return IfaceV{}
	}
	m["vocab.vSetUserRow"] = func(vm *VM, fn *ssa.Function, args []Value) Value {
		vm.P.env["db.user"] = args[0].(IfaceV).V
		return nil
	}
	m["vocab.vUserFound"] = func(vm *VM, fn *ssa.Function, args []Value) Value {
		_, ok := vm.P.env["db.userfound"]
		return mkBool(ok)
	}
	// json decoding of request bodies: nondet error | harness-registered value copied in
	m["encoding/json.NewDecoder"] = func(vm *VM, fn *ssa.Function, args []Value) Value {
		return vm.newStruct(vm.typeByName("encoding/json", "Decoder"), "json.Decoder")
	}
	m["(*encoding/json.Decoder).Decode"] = func(vm *VM, fn *ssa.Function, args []Value) Value {
		if vm.chooseLogged(2) == 0 {
			return vm.newErrorStr("json: decode error")
		}
		dst := args[1].(IfaceV)
		p, ok := dst.V.(PtrV)
		if !ok || p.Obj == nil {
			return vm.newErrorStr("json: Unmarshal(non-pointer)")
		}
		// fill string fields with harness-chosen symbolic strings
		cur := vm.load(p)
		if sv, isS := cur.(*StructV); isS {
			f := append([]Value(nil), sv.F...)
			for i := range f {
				if _, isStr := f[i].(StrV); isStr {
					n := vm.chooseLogged(2) // empty or one symbolic byte: enough to tell "" from non-empty
					f[i] = strFromBytes(vm.symBytes(n, "string"))
				}
			}
			vm.store(p, &StructV{F: f})
		}
		return IfaceV{}
	}
	m["(*encoding/json.Decoder).DisallowUnknownFields"] = nop
	m["encoding/json.Marshal"] = func(vm *VM, fn *ssa.Function, args []Value) Value {
		// like the real encoder, a value with a MarshalJSON method encodes itself; the value
		// that finally reaches the encoder is captured for the harness
		iv := args[0].(IfaceV)
		if dt, ok := iv.Dyn.(types.Type); ok {
			if mfn := vm.findMethod(dt, "MarshalJSON"); mfn != nil && mfn.Blocks != nil {
				saved := vm.cur
				r := vm.callFunction(mfn, []Value{iv.V}, nil)
				vm.cur = saved
				return r
			}
		}
		vm.P.env["json.marshal.last"] = iv
		return TupleV{vm.byteSliceFromStr(mkStr("{}")), IfaceV{}}
	}
	m["encoding/json.NewEncoder"] = func(vm *VM, fn *ssa.Function, args []Value) Value {
		e := vm.newStruct(vm.typeByName("encoding/json", "Encoder"), "json.Encoder")
		e.Obj.Ext = args[0]
		return e
	}
	m["(*encoding/json.Encoder).SetIndent"] = nop
	m["(*encoding/json.Encoder).Encode"] = func(vm *VM, fn *ssa.Function, args []Value) Value {
		// "write n bytes, may fail at any k <= n": the text is 4 fresh bytes standing for the
		// encoding of the configuration as it is at this moment (vOnEncode snapshots it)
		if cb, ok := vm.P.env["onencode"]; ok {
			vm.callValue(cb, nil, nil)
		}
		w := args[0].(PtrV).Obj.Ext.(IfaceV)
		vm.bumpMarker("json.encode")
		nenc := int(vm.P.env["marker:json.encode"].(*Term).Int())
		tok := fmt.Sprintf("E%03d", nenc%1000)
		b := make([]Value, 4)
		for i := range b {
			b[i] = mkBV(8, uint64(tok[i]))
		}
		r := vm.invokeByName(w, "Write", vm.sliceFromValues(b)).(TupleV)
		return r[1]
	}
	m["vocab.vOnEncode"] = func(vm *VM, fn *ssa.Function, args []Value) Value {
		vm.P.env["onencode"] = args[0]
		return nil
	}
	// vOverride(name, f): calls of the named /repo function are routed to the harness
	// function f (used to cut reflect-driven code at a documented stub)
	m["vocab.vOverride"] = func(vm *VM, fn *ssa.Function, args []Value) Value {
		vm.P.overrides[constStr(vm, args[0], "vOverride name")] = args[1].(IfaceV).V
		return nil
	}
	m["vocab.vLastMarshalled"] = func(vm *VM, fn *ssa.Function, args []Value) Value {
		if v, ok := vm.P.env["json.marshal.last"]; ok {
			return v
		}
		return IfaceV{}
	}

	// --- singleflight.Group.Do, documented contract (x/sync v0.19.0), sequentialised:
	// mode 0: the caller is the leader: fn runs once, its result is remembered for the key;
	//         `shared` is what the harness says (true when followers joined while it ran);
	// mode 1: the caller is a follower that joined while the leader's fn was running: it
	//         receives the remembered (v, err) and shared=true, fn is not run.
	// An optional hook runs after fn returned and before Do returns (the window in which other
	// requests may touch the cache).
	m["(*golang.org/x/sync/singleflight.Group).Do"] = func(vm *VM, fn *ssa.Function, args []Value) Value {
		key := args[1]
		vm.P.env["singleflight.lastkey"] = key
		if os.Getenv("GOSYM_LOOPDBG") != "" {
			_, fg := vm.P.env["singleflight.forgotten"]
			fmt.Fprintf(os.Stderr, "DO mode=%v forgotten=%v\n", vm.P.env["singleflight.mode"], fg)
		}
		mode := 0
		if v, ok := vm.P.env["singleflight.mode"]; ok {
			mode = int(v.(*Term).Int())
		}
		if _, forgotten := vm.P.env["singleflight.forgotten"]; forgotten && mode == 1 {
			// the key was forgotten while the flight was in progress: a caller that arrives now
			// does not join it but starts a flight of its own (documented Forget semantics)
			delete(vm.P.env, "singleflight.forgotten")
			r := vm.callValue(args[2], nil, nil).(TupleV)
			return TupleV{r[0], r[1], tFalse}
		}
		if mode == 1 {
			if _, ok := vm.P.env["singleflight.result"]; !ok && vm.co != nil {
				// the flight it joined is still in progress: wait for its result
				vm.block("singleflight: waiting for the flight in progress", func() bool {
					_, done := vm.P.env["singleflight.result"]
					return done
				})
			}
			prev, ok := vm.P.env["singleflight.result"]
			if !ok {
				panic(vm.fail("singleflight follower without a leader result"))
			}
			r := prev.(TupleV)
			vm.raceAcquire("singleflight", true) // fn's completion happens before every Do returns
			return TupleV{r[0], r[1], tTrue}
		}
		vm.lockEventLog("callback", nil, true)
		delete(vm.P.env, "singleflight.result") // a new flight: joiners wait for ITS result
		r := vm.callValue(args[2], nil, nil).(TupleV)
		vm.raceRelease("singleflight", true)
		vm.P.env["singleflight.result"] = r
		if h, ok := vm.P.env["singleflight.after"]; ok {
			vm.callValue(h, nil, nil)
		}
		shared := tFalse
		if v, ok := vm.P.env["singleflight.shared"]; ok {
			shared = v.(*Term)
		}
		return TupleV{r[0], r[1], shared}
	}
	m["vocab.vSingleflightMode"] = func(vm *VM, fn *ssa.Function, args []Value) Value {
		vm.P.env["singleflight.mode"] = args[0]
		return nil
	}
	m["vocab.vSingleflightAfter"] = func(vm *VM, fn *ssa.Function, args []Value) Value {
		vm.P.env["singleflight.after"] = args[0]
		return nil
	}
	m["vocab.vSingleflightResult"] = func(vm *VM, fn *ssa.Function, args []Value) Value {
		if r, ok := vm.P.env["singleflight.result"]; ok {
			return r.(TupleV)[0]
		}
		return IfaceV{}
	}
	m["vocab.vSingleflightShared"] = func(vm *VM, fn *ssa.Function, args []Value) Value {
		vm.P.env["singleflight.shared"] = args[0]
		return nil
	}
	m["vocab.vSingleflightKey"] = func(vm *VM, fn *ssa.Function, args []Value) Value {
		if v, ok := vm.P.env["singleflight.lastkey"]; ok {
			return v
		}
		return StrV{}
	}
}

type route struct {
	pattern      StrV
	handler      Value
	handlerIface Value
}

func (vm *VM) bumpMarker(name string) {
	n := 0
	if v, ok := vm.P.env["marker:"+name]; ok {
		n = int(v.(*Term).Int())
	}
	vm.P.env["marker:"+name] = intV(n + 1)
}

func (vm *VM) cloneHeader(h MapV) Value {
	if h.Obj == nil {
		return MapV{}
	}
	nm := vm.newMap()
	md := h.Obj.Val.(*MapData)
	ne := make([]MapEntry, len(md.E))
	for i, e := range md.E {
		ne[i] = MapEntry{K: e.K, V: vm.sliceFromValues(vm.sliceElems(e.V.(SliceV)))}
	}
	nm.Obj.Val = &MapData{E: ne}
	return nm
}

func (vm *VM) backgroundCtx() Value {
	return IfaceV{Dyn: vm.synType("context"), V: &StructV{F: []Value{ChanV{}}}}
}

// globalIface loads an interface-typed package-level variable (e.g. http.ErrNoCookie).
func (vm *VM) globalIface(pkg, name string) Value {
	p := vm.ld.Pkgs[pkg]
	if p == nil {
		return vm.sentinel(pkg + "." + name)
	}
	g, ok := p.Members[name].(*ssa.Global)
	if !ok {
		return vm.sentinel(pkg + "." + name)
	}
	return vm.globalObj(g).Val
}


type afterFuncRec struct {
	f       Value
	started bool
	stopped bool
}

func (vm *VM) startAfterFunc(rec *afterFuncRec) {
	if rec.started || rec.stopped {
		return
	}
	rec.started = true
	fv, _ := rec.f.(*FuncV)
	vm.P.pending = append(vm.P.pending, &pendingGo{fn: fv, label: "context.AfterFunc", tid: vm.newTid()})
}

func (vm *VM) fireAfterFuncs(ch ChanV) {
	for _, rec := range vm.afterFuncs[ch.Obj] {
		vm.startAfterFunc(rec)
	}
	delete(vm.afterFuncs, ch.Obj)
}
