package main

func addHTTP(m map[string]Intrinsic) {}
