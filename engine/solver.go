package main

// One long-lived SMT solver process per worker (z3 -in), driven incrementally.

import (
	"bufio"
	"fmt"
	"io"
	"os"
	"os/exec"
	"strings"
	"time"
)

type SatResult int

const (
	Sat SatResult = iota
	Unsat
	Unknown
)

func (r SatResult) String() string { return [...]string{"sat", "unsat", "unknown"}[r] }

type Solver struct {
	cmd      *exec.Cmd
	in       io.WriteCloser
	out      *bufio.Reader
	bin      string
	args     []string
	defined  map[int64]string // term id -> symbol, valid for the current path scope
	declared map[string]bool
	Queries  int
	Time     time.Duration
	Errors   []string
	seq      int
	log      io.Writer // optional transcript
	timeoutMs int
	depth    int
	script   []string // every command of the current path scope (for fallback solvers / dumps)
	fallbackMs int
	Restarts int
	Fallbacks int
	FallbackTime time.Duration
}

func NewSolver(bin string, timeoutMs int) (*Solver, error) {
	s := &Solver{bin: bin, timeoutMs: timeoutMs, fallbackMs: timeoutMs}
	if s.timeoutMs > 3000 {
		s.timeoutMs = 3000 // hard queries go to the one-shot fallback pipeline instead
	}
	switch {
	case strings.Contains(bin, "cvc5"):
		s.args = []string{"--incremental", "--lang=smt2", "--produce-models", fmt.Sprintf("--tlimit-per=%d", timeoutMs)}
	default:
		s.args = []string{"-in"}
	}
	if f := os.Getenv("GOSYM_SMTLOG"); f != "" {
		s.log, _ = os.Create(fmt.Sprintf("%s.%d", f, os.Getpid()))
	}
	if err := s.start(); err != nil {
		return nil, err
	}
	return s, nil
}

func (s *Solver) start() error {
	s.cmd = exec.Command(s.bin, s.args...)
	in, err := s.cmd.StdinPipe()
	if err != nil {
		return err
	}
	out, err := s.cmd.StdoutPipe()
	if err != nil {
		return err
	}
	s.cmd.Stderr = s.cmd.Stdout
	if err := s.cmd.Start(); err != nil {
		return err
	}
	s.in = in
	s.out = bufio.NewReaderSize(out, 1<<16)
	s.defined = map[int64]string{}
	s.declared = map[string]bool{}
	s.depth = 0
	if !strings.Contains(s.bin, "cvc5") {
		s.send(fmt.Sprintf("(set-option :timeout %d)", s.timeoutMs))
		s.send("(set-option :model true)")
	} else {
		s.send("(set-logic ALL)")
	}
	return nil
}

func (s *Solver) Close() {
	if s.cmd != nil {
		s.in.Close()
		s.cmd.Process.Kill()
		s.cmd.Wait()
		s.cmd = nil
	}
}

func (s *Solver) send(line string) {
	if s.depth == 1 && !strings.HasPrefix(line, "(echo") {
		s.script = append(s.script, line)
	}
	if s.log != nil {
		fmt.Fprintln(s.log, line)
	}
	io.WriteString(s.in, line)
	io.WriteString(s.in, "\n")
}

// roundTrip sends a command that produces output and reads until a unique marker.
func (s *Solver) roundTrip(cmd string) []string {
	s.seq++
	marker := fmt.Sprintf("<<gosym-%d>>", s.seq)
	s.send(cmd)
	s.send(fmt.Sprintf("(echo \"%s\")", marker))
	var lines []string
	for {
		l, err := s.out.ReadString('\n')
		l = strings.TrimSpace(l)
		if strings.Contains(l, marker) {
			break
		}
		if l != "" {
			lines = append(lines, l)
			if strings.Contains(l, "(error") {
				s.Errors = append(s.Errors, l)
			}
		}
		if err != nil {
			s.Errors = append(s.Errors, "solver died: "+err.Error())
			break
		}
	}
	if s.log != nil {
		for _, l := range lines {
			fmt.Fprintln(s.log, "; ->", l)
		}
	}
	return lines
}

func (s *Solver) Push() { s.depth++; s.send("(push 1)") }
func (s *Solver) Pop()  { s.send("(pop 1)"); s.depth-- }

// ResetPath drops every definition made inside the path scope.
func (s *Solver) BeginPath() {
	s.script = s.script[:0]
	s.Push()
	s.defined = map[int64]string{}
	s.declared = map[string]bool{}
}

func (s *Solver) EndPath() {
	for s.depth > 0 {
		s.Pop()
	}
	s.defined = map[int64]string{}
	s.declared = map[string]bool{}
}

// ref returns an SMT expression for t, emitting declarations/definitions as needed.
func (s *Solver) ref(t *Term) string {
	switch t.Op {
	case "const":
		return constSMT(t)
	case "var":
		if !s.declared[t.Name] {
			s.declared[t.Name] = true
			s.send(fmt.Sprintf("(declare-const %s %s)", t.Name, t.S))
		}
		return t.Name
	}
	if n, ok := s.defined[t.id]; ok {
		return n
	}
	args := make([]string, len(t.Args))
	for i, a := range t.Args {
		args[i] = s.ref(a)
	}
	body := smtApply(t, args)
	if t.size <= 3 {
		// small: inline, but remember so that repeated refs are cheap
		s.defined[t.id] = body
		return body
	}
	name := fmt.Sprintf("t%d", t.id)
	s.send(fmt.Sprintf("(define-fun %s () %s %s)", name, t.S, body))
	s.defined[t.id] = name
	return name
}

func (s *Solver) Assert(t *Term) {
	if t.isTrue() {
		return
	}
	r := s.ref(t)
	s.send("(assert " + r + ")")
}

func (s *Solver) parseSat(lines []string) SatResult {
	for _, l := range lines {
		switch l {
		case "sat":
			return Sat
		case "unsat":
			return Unsat
		case "unknown":
			return Unknown
		}
	}
	return Unknown
}

// CheckWith answers whether (current assertions AND extra) is satisfiable.
func (s *Solver) CheckWith(extra *Term) SatResult {
	if extra.isFalse() {
		return Unsat
	}
	r := s.ref(extra) // definitions go to the enclosing scope, before the push
	t0 := time.Now()
	nerr := len(s.Errors)
	s.Push()
	s.send("(assert " + r + ")")
	res := s.parseSat(s.roundTrip("(check-sat)"))
	s.Pop()
	s.Queries++
	s.Time += time.Since(t0)
	if d := os.Getenv("GOSYM_SLOW"); d != "" && time.Since(t0) > 150*time.Millisecond {
		f, _ := os.Create(fmt.Sprintf("%s/slow-%d-%d-%dms.smt2", d, os.Getpid(), s.Queries, time.Since(t0).Milliseconds()))
		for _, l := range s.script {
			fmt.Fprintln(f, l)
		}
		fmt.Fprintf(f, "(assert %s)\n(check-sat)\n", r)
		f.Close()
	}
	if len(s.Errors) > nerr {
		// the incremental process reported an error (e.g. "push canceled" after a timeout): its
		// scope stack can no longer be trusted - restart it from the path script and decide
		// this query one-shot
		s.restartFromScript()
		return s.fallback(r)
	}
	if res == Unknown {
		res = s.fallback(r)
	}
	return res
}

// restartFromScript replaces the solver process and replays the current path scope.
func (s *Solver) restartFromScript() {
	script := append([]string(nil), s.script...)
	if s.cmd != nil {
		s.in.Close()
		s.cmd.Process.Kill()
		s.cmd.Wait()
	}
	defined, declared := s.defined, s.declared
	errs := s.Errors
	if err := s.start(); err != nil {
		s.Errors = append(errs, "solver restart failed: "+err.Error())
		return
	}
	s.Errors = errs
	s.Restarts++
	s.defined, s.declared = defined, declared
	s.script = s.script[:0]
	s.depth = 0
	for _, l := range script {
		if strings.HasPrefix(l, "(push") {
			s.depth++
		}
		s.send(l)
	}
	if s.depth == 0 {
		s.Push()
	}
}

// fallback re-decides a query that the incremental solver gave up on, one-shot: z3 5.1.0
// (whose one-shot pipeline bit-blasts to SAT and closes multiplication chains the incremental
// core does not), then cvc5 with the integer encoding of bit-vector arithmetic, then plain
// cvc5.  The script is the complete path scope, so the verdict is about the same formula.
func (s *Solver) fallback(extraRef string) SatResult {
	r, _ := s.fallbackModel(extraRef, nil)
	return r
}

func (s *Solver) fallbackModel(extraRef string, valueRefs []string) (SatResult, []string) {
	t0 := time.Now()
	defer func() { s.FallbackTime += time.Since(t0); s.Fallbacks++ }()
	f, err := os.CreateTemp("", "gosym-fb-*.smt2")
	if err != nil {
		return Unknown, nil
	}
	defer os.Remove(f.Name())
	fmt.Fprintln(f, "(set-option :produce-models true)")
	fmt.Fprintln(f, "(set-logic ALL)")
	for _, l := range s.script {
		if strings.HasPrefix(l, "(push") || strings.HasPrefix(l, "(set-option") || strings.HasPrefix(l, "(pop") {
			continue
		}
		fmt.Fprintln(f, l)
	}
	fmt.Fprintf(f, "(assert %s)\n(check-sat)\n", extraRef)
	for _, vr := range valueRefs {
		fmt.Fprintf(f, "(get-value (%s))\n", vr)
	}
	f.Close()
	if d := os.Getenv("GOSYM_DUMP_UNKNOWN"); d != "" {
		b, _ := os.ReadFile(f.Name())
		os.WriteFile(fmt.Sprintf("%s/unknown-%d-%d.smt2", d, os.Getpid(), s.Queries), b, 0o644)
	}
	ms := s.fallbackMs
	if ms == 0 {
		ms = 60000
	}
	cmds := [][]string{
		{"z3-new", fmt.Sprintf("-T:%d", ms/1000+1), f.Name()},
		{"cvc5", "--produce-models", "--solve-bv-as-int=sum", fmt.Sprintf("--tlimit=%d", ms), f.Name()},
		{"cvc5", "--produce-models", fmt.Sprintf("--tlimit=%d", ms), f.Name()},
	}
	for _, c := range cmds {
		out, _ := exec.Command(c[0], c[1:]...).CombinedOutput()
		lines := strings.Split(strings.TrimSpace(string(out)), "\n")
		if len(lines) == 0 {
			continue
		}
		switch strings.TrimSpace(lines[0]) {
		case "unsat":
			return Unsat, nil
		case "sat":
			// values: join the remainder and split per top-level "((" group
			rest := strings.Join(lines[1:], " ")
			var vals []string
			for _, part := range strings.Split(rest, "((")[1:] {
				vals = append(vals, "(("+part)
			}
			if len(valueRefs) > 0 && len(vals) != len(valueRefs) {
				continue
			}
			return Sat, vals
		}
	}
	return Unknown, nil
}

func (s *Solver) Check() SatResult {
	t0 := time.Now()
	nerr := len(s.Errors)
	res := s.parseSat(s.roundTrip("(check-sat)"))
	s.Queries++
	s.Time += time.Since(t0)
	if len(s.Errors) > nerr {
		return Unknown
	}
	return res
}

// ModelWith checks (assertions AND extra) and, if sat, returns values of the given terms.
func (s *Solver) ModelWith(extra *Term, terms []*Term) (SatResult, []*Term) {
	r := s.ref(extra)
	refs := make([]string, len(terms))
	for i, t := range terms {
		refs[i] = s.ref(t)
	}
	t0 := time.Now()
	s.Push()
	s.send("(assert " + r + ")")
	res := s.parseSat(s.roundTrip("(check-sat)"))
	var vals []*Term
	if res == Unknown {
		s.Pop()
		s.Queries++
		var needRefs []string
		var needIdx []int
		for i, t := range terms {
			if !t.IsConst() {
				needRefs = append(needRefs, refs[i])
				needIdx = append(needIdx, i)
			}
		}
		fr, fvals := s.fallbackModel(r, needRefs)
		if fr == Sat {
			vals = make([]*Term, len(terms))
			for i, t := range terms {
				if t.IsConst() {
					vals[i] = t
				}
			}
			for k, i := range needIdx {
				vals[i] = parseValue(fvals[k], terms[i].S)
			}
		}
		s.Time += time.Since(t0)
		return fr, vals
	}
	if res == Sat && len(terms) > 0 {
		vals = make([]*Term, len(terms))
		// ask one by one in a single command; parse pairs
		for i, t := range terms {
			if t.IsConst() {
				vals[i] = t
				continue
			}
			lines := s.roundTrip("(get-value (" + refs[i] + "))")
			vals[i] = parseValue(strings.Join(lines, " "), t.S)
		}
	}
	s.Pop()
	s.Queries++
	s.Time += time.Since(t0)
	return res, vals
}

// parseValue extracts the value literal from "((expr value))".
func parseValue(line string, sort Sort) *Term {
	line = strings.TrimSpace(line)
	// find last literal
	switch sort.K {
	case SBool:
		if strings.Contains(line, " true)") {
			return tTrue
		}
		return tFalse
	case SBV:
		if i := strings.LastIndex(line, "#x"); i >= 0 {
			j := i + 2
			var v uint64
			for j < len(line) && isHex(line[j]) {
				v = v<<4 | uint64(hexVal(line[j]))
				j++
			}
			return mkBV(sort.W, v)
		}
		if i := strings.LastIndex(line, "#b"); i >= 0 {
			j := i + 2
			var v uint64
			for j < len(line) && (line[j] == '0' || line[j] == '1') {
				v = v<<1 | uint64(line[j]-'0')
				j++
			}
			return mkBV(sort.W, v)
		}
		return mkBV(sort.W, 0)
	default:
		// (fp #b0 #b... #b...)
		i := strings.Index(line, "(fp ")
		if i < 0 {
			return mkFP(0)
		}
		parts := strings.Fields(strings.Trim(line[i+4:], ") "))
		var bits uint64
		for _, p := range parts {
			p = strings.Trim(p, ")")
			if strings.HasPrefix(p, "#b") {
				for _, c := range p[2:] {
					bits = bits<<1 | uint64(c-'0')
				}
			} else if strings.HasPrefix(p, "#x") {
				for _, c := range p[2:] {
					bits = bits<<4 | uint64(hexVal(byte(c)))
				}
			}
		}
		t := mkFP(0)
		t.K = bits
		return t
	}
}

func isHex(c byte) bool {
	return (c >= '0' && c <= '9') || (c >= 'a' && c <= 'f') || (c >= 'A' && c <= 'F')
}
func hexVal(c byte) int {
	switch {
	case c >= '0' && c <= '9':
		return int(c - '0')
	case c >= 'a' && c <= 'f':
		return int(c-'a') + 10
	default:
		return int(c-'A') + 10
	}
}
