package main

// One long-lived SMT solver process per worker (z3 -in), driven incrementally.

import (
	"bufio"
	"fmt"
	"io"
	"os"
	"os/exec"
	"strings"
	"time"
)

type SatResult int

const (
	Sat SatResult = iota
	Unsat
	Unknown
)

func (r SatResult) String() string { return [...]string{"sat", "unsat", "unknown"}[r] }

type Solver struct {
	cmd      *exec.Cmd
	in       io.WriteCloser
	out      *bufio.Reader
	bin      string
	args     []string
	defined  map[int64]string // term id -> symbol, valid for the current path scope
	declared map[string]bool
	Queries  int
	Time     time.Duration
	Errors   []string
	seq      int
	log      io.Writer // optional transcript
	timeoutMs int
	depth    int
}

func NewSolver(bin string, timeoutMs int) (*Solver, error) {
	s := &Solver{bin: bin, timeoutMs: timeoutMs}
	switch {
	case strings.Contains(bin, "cvc5"):
		s.args = []string{"--incremental", "--lang=smt2", "--produce-models", fmt.Sprintf("--tlimit-per=%d", timeoutMs)}
	default:
		s.args = []string{"-in"}
	}
	if f := os.Getenv("GOSYM_SMTLOG"); f != "" {
		s.log, _ = os.Create(fmt.Sprintf("%s.%d", f, os.Getpid()))
	}
	if err := s.start(); err != nil {
		return nil, err
	}
	return s, nil
}

func (s *Solver) start() error {
	s.cmd = exec.Command(s.bin, s.args...)
	in, err := s.cmd.StdinPipe()
	if err != nil {
		return err
	}
	out, err := s.cmd.StdoutPipe()
	if err != nil {
		return err
	}
	s.cmd.Stderr = s.cmd.Stdout
	if err := s.cmd.Start(); err != nil {
		return err
	}
	s.in = in
	s.out = bufio.NewReaderSize(out, 1<<16)
	s.defined = map[int64]string{}
	s.declared = map[string]bool{}
	s.depth = 0
	if !strings.Contains(s.bin, "cvc5") {
		s.send(fmt.Sprintf("(set-option :timeout %d)", s.timeoutMs))
		s.send("(set-option :model true)")
	} else {
		s.send("(set-logic ALL)")
	}
	return nil
}

func (s *Solver) Close() {
	if s.cmd != nil {
		s.in.Close()
		s.cmd.Process.Kill()
		s.cmd.Wait()
		s.cmd = nil
	}
}

func (s *Solver) send(line string) {
	if s.log != nil {
		fmt.Fprintln(s.log, line)
	}
	io.WriteString(s.in, line)
	io.WriteString(s.in, "\n")
}

// roundTrip sends a command that produces output and reads until a unique marker.
func (s *Solver) roundTrip(cmd string) []string {
	s.seq++
	marker := fmt.Sprintf("<<gosym-%d>>", s.seq)
	s.send(cmd)
	s.send(fmt.Sprintf("(echo \"%s\")", marker))
	var lines []string
	for {
		l, err := s.out.ReadString('\n')
		l = strings.TrimSpace(l)
		if strings.Contains(l, marker) {
			break
		}
		if l != "" {
			lines = append(lines, l)
			if strings.Contains(l, "(error") {
				s.Errors = append(s.Errors, l)
			}
		}
		if err != nil {
			s.Errors = append(s.Errors, "solver died: "+err.Error())
			break
		}
	}
	if s.log != nil {
		for _, l := range lines {
			fmt.Fprintln(s.log, "; ->", l)
		}
	}
	return lines
}

func (s *Solver) Push() { s.send("(push 1)"); s.depth++ }
func (s *Solver) Pop()  { s.send("(pop 1)"); s.depth-- }

// ResetPath drops every definition made inside the path scope.
func (s *Solver) BeginPath() {
	s.Push()
	s.defined = map[int64]string{}
	s.declared = map[string]bool{}
}

func (s *Solver) EndPath() {
	for s.depth > 0 {
		s.Pop()
	}
	s.defined = map[int64]string{}
	s.declared = map[string]bool{}
}

// ref returns an SMT expression for t, emitting declarations/definitions as needed.
func (s *Solver) ref(t *Term) string {
	switch t.Op {
	case "const":
		return constSMT(t)
	case "var":
		if !s.declared[t.Name] {
			s.declared[t.Name] = true
			s.send(fmt.Sprintf("(declare-const %s %s)", t.Name, t.S))
		}
		return t.Name
	}
	if n, ok := s.defined[t.id]; ok {
		return n
	}
	args := make([]string, len(t.Args))
	for i, a := range t.Args {
		args[i] = s.ref(a)
	}
	body := smtApply(t, args)
	if t.size <= 3 {
		// small: inline, but remember so that repeated refs are cheap
		s.defined[t.id] = body
		return body
	}
	name := fmt.Sprintf("t%d", t.id)
	s.send(fmt.Sprintf("(define-fun %s () %s %s)", name, t.S, body))
	s.defined[t.id] = name
	return name
}

func (s *Solver) Assert(t *Term) {
	if t.isTrue() {
		return
	}
	r := s.ref(t)
	s.send("(assert " + r + ")")
}

func (s *Solver) parseSat(lines []string) SatResult {
	for _, l := range lines {
		switch l {
		case "sat":
			return Sat
		case "unsat":
			return Unsat
		case "unknown":
			return Unknown
		}
	}
	return Unknown
}

// CheckWith answers whether (current assertions AND extra) is satisfiable.
func (s *Solver) CheckWith(extra *Term) SatResult {
	if extra.isFalse() {
		return Unsat
	}
	r := s.ref(extra) // definitions go to the enclosing scope, before the push
	t0 := time.Now()
	nerr := len(s.Errors)
	s.Push()
	s.send("(assert " + r + ")")
	res := s.parseSat(s.roundTrip("(check-sat)"))
	s.Pop()
	s.Queries++
	s.Time += time.Since(t0)
	if len(s.Errors) > nerr {
		return Unknown
	}
	return res
}

func (s *Solver) Check() SatResult {
	t0 := time.Now()
	nerr := len(s.Errors)
	res := s.parseSat(s.roundTrip("(check-sat)"))
	s.Queries++
	s.Time += time.Since(t0)
	if len(s.Errors) > nerr {
		return Unknown
	}
	return res
}

// ModelWith checks (assertions AND extra) and, if sat, returns values of the given terms.
func (s *Solver) ModelWith(extra *Term, terms []*Term) (SatResult, []*Term) {
	r := s.ref(extra)
	refs := make([]string, len(terms))
	for i, t := range terms {
		refs[i] = s.ref(t)
	}
	t0 := time.Now()
	s.Push()
	s.send("(assert " + r + ")")
	res := s.parseSat(s.roundTrip("(check-sat)"))
	var vals []*Term
	if res == Sat && len(terms) > 0 {
		vals = make([]*Term, len(terms))
		// ask one by one in a single command; parse pairs
		for i, t := range terms {
			if t.IsConst() {
				vals[i] = t
				continue
			}
			lines := s.roundTrip("(get-value (" + refs[i] + "))")
			vals[i] = parseValue(strings.Join(lines, " "), t.S)
		}
	}
	s.Pop()
	s.Queries++
	s.Time += time.Since(t0)
	return res, vals
}

// parseValue extracts the value literal from "((expr value))".
func parseValue(line string, sort Sort) *Term {
	line = strings.TrimSpace(line)
	// find last literal
	switch sort.K {
	case SBool:
		if strings.Contains(line, " true)") {
			return tTrue
		}
		return tFalse
	case SBV:
		if i := strings.LastIndex(line, "#x"); i >= 0 {
			j := i + 2
			var v uint64
			for j < len(line) && isHex(line[j]) {
				v = v<<4 | uint64(hexVal(line[j]))
				j++
			}
			return mkBV(sort.W, v)
		}
		if i := strings.LastIndex(line, "#b"); i >= 0 {
			j := i + 2
			var v uint64
			for j < len(line) && (line[j] == '0' || line[j] == '1') {
				v = v<<1 | uint64(line[j]-'0')
				j++
			}
			return mkBV(sort.W, v)
		}
		return mkBV(sort.W, 0)
	default:
		// (fp #b0 #b... #b...)
		i := strings.Index(line, "(fp ")
		if i < 0 {
			return mkFP(0)
		}
		parts := strings.Fields(strings.Trim(line[i+4:], ") "))
		var bits uint64
		for _, p := range parts {
			p = strings.Trim(p, ")")
			if strings.HasPrefix(p, "#b") {
				for _, c := range p[2:] {
					bits = bits<<1 | uint64(c-'0')
				}
			} else if strings.HasPrefix(p, "#x") {
				for _, c := range p[2:] {
					bits = bits<<4 | uint64(hexVal(byte(c)))
				}
			}
		}
		t := mkFP(0)
		t.K = bits
		return t
	}
}

func isHex(c byte) bool {
	return (c >= '0' && c <= '9') || (c >= 'a' && c <= 'f') || (c >= 'A' && c <= 'F')
}
func hexVal(c byte) int {
	switch {
	case c >= '0' && c <= '9':
		return int(c - '0')
	case c >= 'a' && c <= 'f':
		return int(c-'a') + 10
	default:
		return int(c-'A') + 10
	}
}
