package main

// `gosym selftest`: translator validation (Serval practice).  The repository's own test
// inputs (and a few more) are pushed through (a) the natively compiled functions and
// (b) the symbolic interpreter run in all-concrete mode; the printed results must agree.

import (
	"encoding/json"
	"fmt"
	"os"
	"os/exec"
	"path/filepath"
	"strings"
)

type selftestSuite struct {
	Entry  string   `json:"entry"`
	Inputs []string `json:"inputs"`
}

func cmdSelftest(args []string) int {
	vdir := "/verif"
	repo := "/repo"
	var suites []selftestSuite
	if err := readJSON(filepath.Join(vdir, "selftest.json"), &suites); err != nil {
		fmt.Fprintln(os.Stderr, "selftest.json:", err)
		return 2
	}
	ld, err := Load(repo, filepath.Join(vdir, "harness"), nil)
	if err != nil {
		fmt.Fprintln(os.Stderr, "load error:", err)
		return 2
	}
	bad := 0
	total := 0
	for _, su := range suites {
		i := strings.LastIndex(su.Entry, ".")
		fn := ld.FuncByName(su.Entry[:i], su.Entry[i+1:])
		if fn == nil {
			fmt.Println("selftest: entry not found", su.Entry)
			return 2
		}
		// engine side
		var engineOut []string
		for _, in := range su.Inputs {
			cfg := &RunConfig{Unwind: 4096, MaxConcretize: 64, Workers: 1, SolverBin: "z3-new", QueryTimeout: 20000, Params: map[string]int{},
				Concrete: []NondetVal{{Kind: "string", Bytes: []byte(in)}}}
			ex := NewExplorer(ld, fn, cfg)
			ex.Run()
			if len(ex.Errors) > 0 {
				fmt.Printf("selftest: engine error on %s(%q): %v\n", su.Entry, in, ex.Errors)
				return 2
			}
			engineOut = append(engineOut, strings.Join(ex.Traces, "|"))
		}
		// native side (one go test run for the whole suite)
		nativeOut, err := nativeSelftest(repo, filepath.Join(vdir, "harness"), su)
		if err != nil {
			fmt.Println("selftest: native run failed:", err)
			return 2
		}
		for k, in := range su.Inputs {
			total++
			if k >= len(nativeOut) || nativeOut[k] != engineOut[k] {
				bad++
				n := "<missing>"
				if k < len(nativeOut) {
					n = nativeOut[k]
				}
				fmt.Printf("SELFTEST-MISMATCH %s(%q): native=%q engine=%q\n", su.Entry, in, n, engineOut[k])
			}
		}
	}
	fmt.Printf("selftest: %d inputs through native code and the interpreter, %d disagreements\n", total, bad)
	if bad > 0 {
		return 1
	}
	return 0
}

func nativeSelftest(repo, hdir string, su selftestSuite) ([]string, error) {
	tmp, err := os.MkdirTemp("", "gosym-selftest-")
	if err != nil {
		return nil, err
	}
	defer os.RemoveAll(tmp)
	ov, err := harnessOverlay(repo, hdir, true)
	if err != nil {
		return nil, err
	}
	i := strings.LastIndex(su.Entry, ".")
	pkgPath, fn := su.Entry[:i], su.Entry[i+1:]
	sub := strings.TrimPrefix(strings.TrimPrefix(pkgPath, "reservoir"), "/")
	pkgName := ""
	for p, data := range ov {
		if filepath.Dir(p) == filepath.Join(repo, sub) {
			pkgName = packageClause(data)
			break
		}
	}
	ov[filepath.Join(repo, sub, "zz_verif_replay_test.go")] = []byte(fmt.Sprintf(
		"package %s\n\nimport \"testing\"\n\nfunc TestGosymSelftest(t *testing.T) { vSelftestMain(t, %s) }\n", pkgName, fn))
	repl := map[string]string{}
	n := 0
	for p, data := range ov {
		n++
		f := filepath.Join(tmp, fmt.Sprintf("f%d.go", n))
		os.WriteFile(f, data, 0o644)
		repl[p] = f
	}
	ovJSON, _ := json.Marshal(map[string]interface{}{"Replace": repl})
	ovFile := filepath.Join(tmp, "overlay.json")
	os.WriteFile(ovFile, ovJSON, 0o644)
	inJSON, _ := json.Marshal(su.Inputs)
	inFile := filepath.Join(tmp, "inputs.json")
	os.WriteFile(inFile, inJSON, 0o644)
	cmd := exec.Command("go", "test", "-v", "-vet=off", "-count=1", "-run", "^TestGosymSelftest$", "-overlay", ovFile, "-timeout", "120s", "./"+sub)
	cmd.Dir = repo
	cmd.Env = append(os.Environ(), "GOSYM_INPUTS="+inFile, "GOCACHE="+goCacheDir())
	out, _ := cmd.CombinedOutput()
	var res []string
	for _, l := range strings.Split(string(out), "\n") {
		if strings.HasPrefix(l, "SELFTEST-RESULT ") {
			var s string
			json.Unmarshal([]byte(strings.TrimPrefix(l, "SELFTEST-RESULT ")), &s)
			res = append(res, s)
		}
	}
	if len(res) != len(su.Inputs) {
		o := string(out)
		if len(o) > 800 {
			o = o[len(o)-800:]
		}
		return res, fmt.Errorf("expected %d results, got %d: %s", len(su.Inputs), len(res), o)
	}
	return res, nil
}
