package main

import (
	"fmt"
	"strconv"

	"golang.org/x/tools/go/ssa"
)

// firstIndex forks on the position of the first element equal to c (or -1).
func (vm *VM) firstIndexOf(bs []*Term, c *Term) int {
	n := len(bs)
	conds := make([]*Term, 0, n+1)
	none := tTrue
	for i := 0; i < n; i++ {
		eq := mkEq(bs[i], c)
		conds = append(conds, mkAnd(none, eq))
		none = mkAnd(none, mkNot(eq))
		if none.isFalse() {
			break
		}
	}
	for len(conds) < n {
		conds = append(conds, tFalse)
	}
	conds = append(conds, none)
	k := vm.fork(conds, true)
	if k < 0 {
		panic(&pathEnd{"infeasible"})
	}
	if k == n {
		return -1
	}
	return k
}

func (vm *VM) lastIndexOf(bs []*Term, c *Term) int {
	n := len(bs)
	conds := make([]*Term, n+1)
	none := tTrue
	for i := n - 1; i >= 0; i-- {
		eq := mkEq(bs[i], c)
		conds[i] = mkAnd(none, eq)
		none = mkAnd(none, mkNot(eq))
	}
	conds[n] = none
	k := vm.fork(conds, true)
	if k < 0 {
		panic(&pathEnd{"infeasible"})
	}
	if k == n {
		return -1
	}
	return k
}

// countOf decides, position by position, which elements equal c (concrete count per path).
func (vm *VM) countOf(bs []*Term, c *Term) int {
	cnt := 0
	for _, b := range bs {
		if vm.branch(mkEq(b, c)) {
			cnt++
		}
	}
	return cnt
}

// indexOfSub forks on the first position where sub occurs in s.
func (vm *VM) indexOfSub(s, sub StrV) int {
	n, m := s.Len(), sub.Len()
	if m == 0 {
		return 0
	}
	if m > n {
		return -1
	}
	if !s.Sym && !sub.Sym {
		return indexConcrete(s.C, sub.C)
	}
	np := n - m + 1
	conds := make([]*Term, 0, np+1)
	none := tTrue
	for i := 0; i < np; i++ {
		eq := strEq(s.Slice(i, i+m), sub)
		conds = append(conds, mkAnd(none, eq))
		none = mkAnd(none, mkNot(eq))
	}
	conds = append(conds, none)
	k := vm.fork(conds, true)
	if k < 0 {
		panic(&pathEnd{"infeasible"})
	}
	if k == np {
		return -1
	}
	return k
}

func indexConcrete(s, sub string) int {
	for i := 0; i+len(sub) <= len(s); i++ {
		if s[i:i+len(sub)] == sub {
			return i
		}
	}
	return -1
}

func intV(i int) *Term { return mkBV(64, uint64(int64(i))) }

func sliceTerms(vm *VM, v Value) []*Term {
	el := vm.sliceElems(v.(SliceV))
	r := make([]*Term, len(el))
	for i, e := range el {
		r[i] = e.(*Term)
	}
	return r
}

func addStrings(m map[string]Intrinsic) {
	m["internal/bytealg.IndexByteString"] = func(vm *VM, fn *ssa.Function, args []Value) Value {
		return intV(vm.firstIndexOf(args[0].(StrV).Bytes(), args[1].(*Term)))
	}
	m["internal/bytealg.IndexByte"] = func(vm *VM, fn *ssa.Function, args []Value) Value {
		return intV(vm.firstIndexOf(sliceTerms(vm, args[0]), args[1].(*Term)))
	}
	m["internal/bytealg.LastIndexByteString"] = func(vm *VM, fn *ssa.Function, args []Value) Value {
		return intV(vm.lastIndexOf(args[0].(StrV).Bytes(), args[1].(*Term)))
	}
	m["internal/bytealg.LastIndexByte"] = func(vm *VM, fn *ssa.Function, args []Value) Value {
		return intV(vm.lastIndexOf(sliceTerms(vm, args[0]), args[1].(*Term)))
	}
	m["internal/bytealg.CountString"] = func(vm *VM, fn *ssa.Function, args []Value) Value {
		return intV(vm.countOf(args[0].(StrV).Bytes(), args[1].(*Term)))
	}
	m["internal/bytealg.Count"] = func(vm *VM, fn *ssa.Function, args []Value) Value {
		return intV(vm.countOf(sliceTerms(vm, args[0]), args[1].(*Term)))
	}
	m["internal/bytealg.IndexString"] = func(vm *VM, fn *ssa.Function, args []Value) Value {
		return intV(vm.indexOfSub(args[0].(StrV), args[1].(StrV)))
	}
	m["internal/bytealg.Index"] = func(vm *VM, fn *ssa.Function, args []Value) Value {
		return intV(vm.indexOfSub(vm.strFromByteSlice(args[0].(SliceV)), vm.strFromByteSlice(args[1].(SliceV))))
	}
	idx := func(vm *VM, fn *ssa.Function, args []Value) Value {
		return intV(vm.indexOfSub(args[0].(StrV), args[1].(StrV)))
	}
	m["internal/stringslite.Index"] = idx
	m["strings.Index"] = idx
	m["bytes.Index"] = func(vm *VM, fn *ssa.Function, args []Value) Value {
		return intV(vm.indexOfSub(vm.strFromByteSlice(args[0].(SliceV)), vm.strFromByteSlice(args[1].(SliceV))))
	}
	m["internal/bytealg.Equal"] = func(vm *VM, fn *ssa.Function, args []Value) Value {
		return strEq(vm.strFromByteSlice(args[0].(SliceV)), vm.strFromByteSlice(args[1].(SliceV)))
	}
	m["internal/bytealg.Compare"] = func(vm *VM, fn *ssa.Function, args []Value) Value {
		a, b := vm.strFromByteSlice(args[0].(SliceV)), vm.strFromByteSlice(args[1].(SliceV))
		lt, eq := strLess(a, b), strEq(a, b)
		return mkIte(lt, mkBV(64, ^uint64(0)), mkIte(eq, mkBV(64, 0), mkBV(64, 1)))
	}
	m["internal/stringslite.Clone"] = func(vm *VM, fn *ssa.Function, args []Value) Value { return args[0] }
	// strings.ToLower / ToUpper on symbolic bytes: when every byte is ASCII the result is the
	// per-byte case mapping (exactly what the real function computes on its ASCII fast path);
	// otherwise the real body is interpreted.  One branch instead of a fork per byte.
	caseMap := func(lower bool) Intrinsic {
		return func(vm *VM, fn *ssa.Function, args []Value) Value {
			s, ok := args[0].(StrV)
			if !ok || !s.Sym || s.Opaque() {
				return vm.callBody(fn, args)
			}
			bs := s.Bytes()
			var ascii []*Term
			for _, b := range bs {
				ascii = append(ascii, mkBVCmp("bvult", b, mkBV(8, 0x80)))
			}
			if !vm.branch(mkAndN(ascii...)) {
				return vm.callBody(fn, args)
			}
			out := make([]*Term, len(bs))
			for i, b := range bs {
				if lower {
					isUp := mkAnd(mkBVCmp("bvuge", b, mkBV(8, 'A')), mkBVCmp("bvule", b, mkBV(8, 'Z')))
					out[i] = mkIte(isUp, mkBVBin("bvadd", b, mkBV(8, 32)), b)
				} else {
					isLo := mkAnd(mkBVCmp("bvuge", b, mkBV(8, 'a')), mkBVCmp("bvule", b, mkBV(8, 'z')))
					out[i] = mkIte(isLo, mkBVBin("bvsub", b, mkBV(8, 32)), b)
				}
			}
			return StrV{B: out, Sym: true}
		}
	}
	m["strings.ToLower"] = caseMap(true)
	m["strings.ToUpper"] = caseMap(false)
	m["strings.Clone"] = func(vm *VM, fn *ssa.Function, args []Value) Value { return args[0] }
	m["strings.Join"] = func(vm *VM, fn *ssa.Function, args []Value) Value {
		var out StrV
		sep := args[1].(StrV)
		for i, e := range vm.sliceElems(args[0].(SliceV)) {
			if i > 0 {
				out = strConcat(out, sep)
			}
			out = strConcat(out, e.(StrV))
		}
		return out
	}
	// number formatting: concrete natively, symbolic as an opaque decimal part
	fmtInt := func(signed bool) Intrinsic {
		return func(vm *VM, fn *ssa.Function, args []Value) Value {
			t := args[0].(*Term)
			base := 10
			if len(args) > 1 {
				base = constInt(vm, args[1], "FormatInt base")
			}
			if t.IsConst() {
				if signed {
					return mkStr(strconv.FormatInt(t.Int(), base))
				}
				return mkStr(strconv.FormatUint(t.Uint(), base))
			}
			if base != 10 {
				panic(vm.fail("symbolic FormatInt with base %d", base))
			}
			if signed {
				return opaqueNum("dec", mkSext(t, 64))
			}
			return opaqueNum("udec", mkZext(t, 64))
		}
	}
	m["strconv.Itoa"] = fmtInt(true)
	m["strconv.FormatInt"] = fmtInt(true)
	m["strconv.FormatUint"] = fmtInt(false)
	m["internal/strconv.Itoa"] = fmtInt(true)
	m["internal/strconv.FormatInt"] = fmtInt(true)
	m["internal/strconv.FormatUint"] = fmtInt(false)
	m["internal/itoa.Itoa"] = fmtInt(true)
	m["internal/itoa.Uitoa"] = fmtInt(false)
	m["strconv.Quote"] = func(vm *VM, fn *ssa.Function, args []Value) Value {
		s := args[0].(StrV)
		if !s.Sym && !s.Opaque() {
			return mkStr(strconv.Quote(s.C))
		}
		return strConcat(strConcat(mkStr("\""), s), mkStr("\""))
	}
	// parsing an opaque rendered decimal gives the number back (Sprintf("%d")/Itoa round trip)
	parseOpaque := func(next string, bits int) Intrinsic {
		return func(vm *VM, fn *ssa.Function, args []Value) Value {
			s := args[0].(StrV)
			if s.Opaque() {
				if len(s.Parts) == 1 && s.Parts[0].Num != nil && (s.Parts[0].Kind == "dec" || s.Parts[0].Kind == "udec") {
					n := s.Parts[0].Num
					if len(fn.Signature.Results().At(0).Type().String()) > 0 && fn.Name() == "Atoi" {
						return TupleV{n, IfaceV{}}
					}
					return TupleV{n, IfaceV{}}
				}
				return TupleV{mkBV(64, 0), vm.newErrorStr("strconv: invalid syntax (opaque string)")}
			}
			real := vm.ld.FuncByName(fn.Pkg.Pkg.Path(), fn.Name())
			_ = real
			return vm.callBody(fn, args)
		}
	}
	m["strconv.ParseInt"] = parseOpaque("", 64)
	m["strconv.Atoi"] = parseOpaque("", 64)
	m["strconv.ParseUint"] = parseOpaque("", 64)
}

// callBody interprets fn's SSA body, bypassing the intrinsic table (used by models that
// only intercept special argument shapes).
func (vm *VM) callBody(fn *ssa.Function, args []Value) Value {
	if fn.Blocks == nil {
		panic(vm.fail("no body for %s", fn))
	}
	info := vm.getInfo(fn)
	fr := &Frame{fn: fn, info: info, env: make([]Value, info.n), caller: vm.cur}
	for i, p := range fn.Params {
		fr.env[info.idx[p]] = args[i]
	}
	vm.depth++
	saved := vm.cur
	vm.cur = fr
	defer func() {
		vm.depth--
		vm.cur = saved
	}()
	return vm.runFrame(fr)
}

func leafKey(t *Term) string {
	switch t.Op {
	case "const":
		return constSMT(t)
	case "var":
		return t.Name
	}
	return fmt.Sprintf("#%d", t.id)
}
