package main

import (
	"encoding/json"
	"flag"
	"fmt"
	"os"
	"sort"
	"strconv"
	"strings"
	"time"
)

type multiFlag []string

func (m *multiFlag) String() string     { return strings.Join(*m, ",") }
func (m *multiFlag) Set(s string) error { *m = append(*m, s); return nil }

func main() {
	// the repository needs go1.26; packages.Load finds `go` through the process PATH
	os.Setenv("PATH", "/opt/veriftools/go1.26.8/bin:"+os.Getenv("PATH"))
	os.Setenv("GOTOOLCHAIN", "local")
	os.Setenv("GOFLAGS", "-mod=mod")
	os.Setenv("GOPROXY", "off")
	os.Setenv("GOSUMDB", "off")
	if len(os.Args) < 2 {
		fmt.Fprintln(os.Stderr, "usage: gosym run|check ...")
		os.Exit(2)
	}
	switch os.Args[1] {
	case "run":
		os.Exit(cmdRun(os.Args[2:]))
	case "check":
		os.Exit(cmdCheck(os.Args[2:]))
	case "replay":
		os.Exit(cmdReplay(os.Args[2:]))
	case "selftest":
		os.Exit(cmdSelftest(os.Args[2:]))
	default:
		fmt.Fprintln(os.Stderr, "unknown command", os.Args[1])
		os.Exit(2)
	}
}

func cmdRun(args []string) int {
	fs := flag.NewFlagSet("run", flag.ExitOnError)
	repo := fs.String("repo", "/repo", "repository root")
	hdir := fs.String("harness", "/verif/harness", "harness directory")
	entry := fs.String("entry", "", "pkgpath.Func")
	workers := fs.Int("workers", 16, "")
	unwind := fs.Int("unwind", 64, "")
	maxPaths := fs.Int("maxpaths", 0, "")
	timeout := fs.Int("qtimeout", 20000, "per-query timeout ms")
	solver := fs.String("solver", "z3-new", "")
	verbose := fs.Bool("v", false, "")
	var params multiFlag
	fs.Var(&params, "param", "name=int")
	dump := fs.String("dump", "", "directory for replay files of the violations found")
	fs.Parse(args)
	t0 := time.Now()
	ld, err := Load(*repo, *hdir, nil)
	if err != nil {
		fmt.Fprintln(os.Stderr, "load error:", err)
		return 2
	}
	fmt.Fprintf(os.Stderr, "loaded in %.1fs\n", time.Since(t0).Seconds())
	i := strings.LastIndex(*entry, ".")
	fn := ld.FuncByName((*entry)[:i], (*entry)[i+1:])
	if fn == nil {
		fmt.Fprintln(os.Stderr, "entry not found:", *entry)
		return 2
	}
	cfg := &RunConfig{Unwind: *unwind, MaxConcretize: 64, Workers: *workers, SolverBin: *solver, QueryTimeout: *timeout,
		MaxPaths: *maxPaths, Params: map[string]int{}, Verbose: *verbose}
	for _, p := range params {
		kv := strings.SplitN(p, "=", 2)
		v, _ := strconv.Atoi(kv[1])
		cfg.Params[kv[0]] = v
	}
	ex := NewExplorer(ld, fn, cfg)
	t1 := time.Now()
	ex.Run()
	fmt.Printf("entry=%s paths=%d withObl=%d branches=%d steps=%d oblig=%d discharged=%d unknown=%d wall=%.1fs\n",
		*entry, ex.Paths, ex.PathsWithOb, ex.Branches, ex.Steps, ex.Oblig, ex.Discharged, ex.Unknowns, time.Since(t1).Seconds())
	fmt.Printf("queries=%d solver_s=%.1f\n", ex.Queries, ex.SolverTime.Seconds())
	fmt.Printf("end reasons: %v\nreach: %v\n", ex.EndReasons, ex.Reach)
	if *verbose {
		type kv struct {
			k string
			v int
		}
		var l []kv
		for k, v := range ex.ForkSites {
			l = append(l, kv{k, v})
		}
		sort.Slice(l, func(i, j int) bool { return l[i].v > l[j].v })
		for i, e := range l {
			if i > 25 {
				break
			}
			fmt.Printf("  fork %6d  %s\n", e.v, e.k)
		}
	}
	if len(ex.Notes) > 0 {
		fmt.Printf("notes: %v\n", ex.Notes)
	}
	if len(ex.InitWarnings) > 0 {
		fmt.Printf("init-time opaque calls: %v\n", sortedKeys(ex.InitWarnings))
	}
	ids := make([]string, 0, len(ex.Viol))
	for id := range ex.Viol {
		ids = append(ids, id)
	}
	sort.Strings(ids)
	for _, id := range ids {
		fmt.Printf("VIOL %s x%d\n", id, ex.ViolCount[id])
		if *dump != "" {
			os.MkdirAll(*dump, 0o755)
			rf := map[string]interface{}{"property": "", "violation": ex.Viol[id][0], "params": cfg.Params}
			b, _ := json.MarshalIndent(rf, "", " ")
			os.WriteFile(*dump+"/"+sanitize(id)+".json", b, 0o644)
		}
		for _, v := range ex.Viol[id] {
			b, _ := json.Marshal(v.Case)
			fmt.Printf("   %s @ %s\n   case=%s\n", v.Detail, v.Where, b)
		}
	}
	for _, e := range ex.Errors {
		fmt.Println("ERROR:", e)
	}
	if len(ex.Errors) > 0 {
		return 2
	}
	if len(ex.Viol) > 0 {
		return 1
	}
	return 0
}


// cmdReplay re-executes a recorded counterexample concretely in the engine (every nondet
// value fixed to the solver's model) and reports whether the violation shows again.
func cmdReplay(args []string) int {
	fs := flag.NewFlagSet("replay", flag.ExitOnError)
	repo := fs.String("repo", "/repo", "")
	hdir := fs.String("harness", "/verif/harness", "")
	trace := fs.Bool("trace", false, "")
	fs.Parse(args)
	if fs.NArg() < 1 {
		fmt.Fprintln(os.Stderr, "usage: gosym replay <replay.json>")
		return 2
	}
	var rf struct {
		Property  string         `json:"property"`
		Params    map[string]int `json:"params"`
		Violation Violation      `json:"violation"`
	}
	if err := readJSON(fs.Arg(0), &rf); err != nil {
		fmt.Fprintln(os.Stderr, err)
		return 2
	}
	ld, err := Load(*repo, *hdir, nil)
	if err != nil {
		fmt.Fprintln(os.Stderr, "load error:", err)
		return 2
	}
	e := rf.Violation.Harness
	i := strings.LastIndex(e, ".")
	fn := ld.FuncByName(e[:i], e[i+1:])
	if fn == nil {
		fmt.Fprintln(os.Stderr, "entry not found:", e)
		return 2
	}
	if rf.Params == nil {
		rf.Params = map[string]int{}
	}
	conc := rf.Violation.Case
	if conc == nil {
		conc = []NondetVal{}
	}
	cfg := &RunConfig{Unwind: 256, MaxConcretize: 64, Workers: 1, SolverBin: "z3-new", QueryTimeout: 20000, Params: rf.Params, Concrete: conc, Verbose: *trace}
	ex := NewExplorer(ld, fn, cfg)
	ex.Run()
	for _, er := range ex.Errors {
		fmt.Println("ERROR:", er)
	}
	hit := false
	for id, vs := range ex.Viol {
		for _, v := range vs {
			fmt.Printf("REPLAY-VIOLATED %s: %s @ %s\n", id, v.Detail, v.Where)
			if *trace {
				for _, t := range v.Trace {
					fmt.Println("   trace:", t)
				}
			}
		}
		if id == rf.Violation.ID {
			hit = true
		}
	}
	if hit {
		fmt.Printf("reproduced: %s\n", rf.Violation.ID)
		return 1
	}
	fmt.Println("not reproduced")
	return 0
}
