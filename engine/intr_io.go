package main

type FSModel struct{}

func addIO(m map[string]Intrinsic) {}
