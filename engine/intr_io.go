package main

// POSIX-style file-system model (DESIGN §2.5) and io helpers.
//
// directory = name -> inode; inode = byte vector (+ link count); handle = (inode, offset).
// os.Create on an existing name truncates the SAME inode (O_TRUNC), so a reader that holds a
// handle observes the truncation; os.Remove unlinks the name, open handles keep the inode.

import (
	"sort"
	"go/types"
	"path/filepath"
	"strings"

	"golang.org/x/tools/go/ssa"
)

type inode struct {
	data []*Term
	id   int
}

type fhandle struct {
	ino      *inode
	off      int
	closed   bool
	name     string
	writable bool
}

type FSModel struct {
	files   map[string]*inode
	dirs    map[string]bool
	handles map[*Object]*fhandle
	faults  int // remaining injected faults
	nextIno int
	ops     []string
}

func (vm *VM) fs() *FSModel {
	if vm.P.fs == nil {
		vm.P.fs = &FSModel{files: map[string]*inode{}, dirs: map[string]bool{}, handles: map[*Object]*fhandle{}}
	}
	return vm.P.fs
}

func (vm *VM) fsFault(what string) bool {
	f := vm.fs()
	vm.lockEventLog("io", nil, true)
	vm.schedPoint("fs")
	if f.faults <= 0 {
		return false
	}
	if vm.chooseLogged(2) == 1 {
		f.faults--
		f.ops = append(f.ops, "FAULT "+what)
		return true
	}
	return false
}

func (vm *VM) pathErr(op, name string, sentinel string) Value {
	var wrapped []Value
	if sentinel != "" {
		wrapped = []Value{vm.sentinel(sentinel)}
	}
	return vm.newError(mkStr(op+" "+name+": "+sentinel), wrapped)
}

func (vm *VM) fileType() types.Type { return vm.typeByName("os", "File") }

func (vm *VM) newFile(h *fhandle) PtrV {
	p := vm.newStruct(vm.fileType(), "os.File("+h.name+")")
	vm.fs().handles[p.Obj] = h
	return p
}

func (vm *VM) handleOf(v Value) *fhandle {
	p, ok := v.(PtrV)
	if !ok || p.Obj == nil {
		return nil
	}
	return vm.fs().handles[p.Obj]
}

func cleanName(vm *VM, v Value) string {
	return filepath.Clean(constStr(vm, v, "file name"))
}

const errNotExist = "io/fs.ErrNotExist"

func addIO(m map[string]Intrinsic) {
	m["path/filepath.Join"] = func(vm *VM, fn *ssa.Function, args []Value) Value {
		var parts []string
		for _, e := range vm.sliceElems(args[0].(SliceV)) {
			parts = append(parts, constStr(vm, e, "filepath.Join element"))
		}
		return mkStr(filepath.Join(parts...))
	}
	m["path/filepath.Dir"] = func(vm *VM, fn *ssa.Function, args []Value) Value {
		return mkStr(filepath.Dir(constStr(vm, args[0], "filepath.Dir")))
	}
	m["path/filepath.Clean"] = func(vm *VM, fn *ssa.Function, args []Value) Value {
		return mkStr(filepath.Clean(constStr(vm, args[0], "filepath.Clean")))
	}
	m["os.MkdirAll"] = func(vm *VM, fn *ssa.Function, args []Value) Value {
		vm.fs().dirs[cleanName(vm, args[0])] = true
		return IfaceV{}
	}
	// filepath.Glob over the modelled file system: the documented semantics (the WHOLE pattern,
	// directory part included, is a pattern; matching by filepath.Match; sorted result)
	m["path/filepath.Glob"] = func(vm *VM, fn *ssa.Function, args []Value) Value {
		f := vm.fs()
		pat := constStr(vm, args[0], "filepath.Glob pattern")
		if _, err := filepath.Match(pat, ""); err != nil {
			return TupleV{SliceV{}, vm.newErrorStr("syntax error in pattern")}
		}
		seen := map[string]bool{}
		var names []string
		consider := func(name string) {
			// every path component prefix that exists is a candidate
			for p := name; p != "." && p != "/" && p != ""; p = filepath.Dir(p) {
				if seen[p] {
					continue
				}
				seen[p] = true
				if ok, _ := filepath.Match(pat, p); ok {
					names = append(names, p)
				}
			}
		}
		for name := range f.files {
			consider(name)
		}
		for name := range f.dirs {
			consider(name)
		}
		sort.Strings(names)
		vals := make([]Value, len(names))
		for i, n := range names {
			vals[i] = mkStr(n)
		}
		if len(vals) == 0 {
			return TupleV{SliceV{}, IfaceV{}}
		}
		return TupleV{vm.sliceFromValues(vals), IfaceV{}}
	}
	m["os.RemoveAll"] = func(vm *VM, fn *ssa.Function, args []Value) Value {
		f := vm.fs()
		d := cleanName(vm, args[0])
		for name := range f.files {
			if name == d || strings.HasPrefix(name, d+"/") {
				delete(f.files, name)
			}
		}
		for name := range f.dirs {
			if name == d || strings.HasPrefix(name, d+"/") {
				delete(f.dirs, name)
			}
		}
		return IfaceV{}
	}
	m["os.Create"] = func(vm *VM, fn *ssa.Function, args []Value) Value {
		f := vm.fs()
		name := cleanName(vm, args[0])
		if vm.fsFault("create " + name) {
			return TupleV{PtrV{}, vm.pathErr("open", name, "io error")}
		}
		ino, ok := f.files[name]
		if ok {
			ino.data = nil // O_TRUNC: same inode
		} else {
			f.nextIno++
			ino = &inode{id: f.nextIno}
			f.files[name] = ino
		}
		f.ops = append(f.ops, "create "+name)
		return TupleV{vm.newFile(&fhandle{ino: ino, name: name, writable: true}), IfaceV{}}
	}
	m["os.Open"] = func(vm *VM, fn *ssa.Function, args []Value) Value {
		f := vm.fs()
		name := cleanName(vm, args[0])
		ino, ok := f.files[name]
		if !ok {
			return TupleV{PtrV{}, vm.pathErr("open", name, errNotExist)}
		}
		if vm.fsFault("open " + name) {
			return TupleV{PtrV{}, vm.pathErr("open", name, "io error")}
		}
		return TupleV{vm.newFile(&fhandle{ino: ino, name: name}), IfaceV{}}
	}
	m["os.Remove"] = func(vm *VM, fn *ssa.Function, args []Value) Value {
		f := vm.fs()
		name := cleanName(vm, args[0])
		if _, ok := f.files[name]; !ok {
			return vm.pathErr("remove", name, errNotExist)
		}
		if vm.fsFault("remove " + name) {
			return vm.pathErr("remove", name, "io error")
		}
		delete(f.files, name)
		f.ops = append(f.ops, "remove "+name)
		return IfaceV{}
	}
	statInfo := func(vm *VM, name string, size int) Value {
		return IfaceV{Dyn: vm.synType("fileinfo"), V: &StructV{F: []Value{mkStr(name), intV(size)}}}
	}
	m["os.Stat"] = func(vm *VM, fn *ssa.Function, args []Value) Value {
		f := vm.fs()
		name := cleanName(vm, args[0])
		if f.dirs[name] {
			return TupleV{statInfo(vm, name, 0), IfaceV{}}
		}
		ino, ok := f.files[name]
		if !ok {
			return TupleV{IfaceV{}, vm.pathErr("stat", name, errNotExist)}
		}
		if vm.fsFault("stat " + name) {
			return TupleV{IfaceV{}, vm.pathErr("stat", name, "io error")}
		}
		return TupleV{statInfo(vm, name, len(ino.data)), IfaceV{}}
	}
	m["syn:fileinfo.Size"] = func(vm *VM, fn *ssa.Function, args []Value) Value { return args[0].(*StructV).F[1] }
	m["syn:fileinfo.Name"] = func(vm *VM, fn *ssa.Function, args []Value) Value { return args[0].(*StructV).F[0] }
	m["syn:fileinfo.IsDir"] = func(vm *VM, fn *ssa.Function, args []Value) Value { return tFalse }
	m["(*os.File).Stat"] = func(vm *VM, fn *ssa.Function, args []Value) Value {
		h := vm.handleOf(args[0])
		if h == nil || h.closed {
			return TupleV{IfaceV{}, vm.pathErr("stat", "?", "file already closed")}
		}
		return TupleV{statInfo(vm, h.name, len(h.ino.data)), IfaceV{}}
	}
	m["(*os.File).Name"] = func(vm *VM, fn *ssa.Function, args []Value) Value {
		return mkStr(vm.handleOf(args[0]).name)
	}
	m["(*os.File).Close"] = func(vm *VM, fn *ssa.Function, args []Value) Value {
		h := vm.handleOf(args[0])
		if h == nil {
			return vm.sentinel("os.ErrInvalid")
		}
		if h.closed {
			return vm.pathErr("close", h.name, "file already closed")
		}
		h.closed = true
		return IfaceV{}
	}
	m["(*os.File).Write"] = func(vm *VM, fn *ssa.Function, args []Value) Value {
		h := vm.handleOf(args[0])
		b := sliceTerms(vm, args[1])
		if h == nil || h.closed {
			return TupleV{intV(0), vm.pathErr("write", "?", "file already closed")}
		}
		n := len(b)
		var err Value = IfaceV{}
		if n > 0 && vm.fsFault("write "+h.name) {
			n = vm.chooseLogged(len(b)) // bytes that made it before the failure
			err = vm.pathErr("write", h.name, "no space left on device")
		}
		for len(h.ino.data) < h.off {
			h.ino.data = append(h.ino.data, mkBV(8, 0))
		}
		nd := append([]*Term(nil), h.ino.data[:h.off]...)
		nd = append(nd, b[:n]...)
		if h.off+n < len(h.ino.data) {
			nd = append(nd, h.ino.data[h.off+n:]...)
		}
		h.ino.data = nd
		h.off += n
		return TupleV{intV(n), err}
	}
	m["(*os.File).Read"] = func(vm *VM, fn *ssa.Function, args []Value) Value {
		h := vm.handleOf(args[0])
		dst := args[1].(SliceV)
		if h == nil || h.closed {
			return TupleV{intV(0), vm.pathErr("read", "?", "file already closed")}
		}
		vm.schedPoint("fs-read")
		if dst.Len == 0 {
			return TupleV{intV(0), IfaceV{}}
		}
		if h.off >= len(h.ino.data) {
			return TupleV{intV(0), vm.globalIface("io", "EOF")}
		}
		n := len(h.ino.data) - h.off
		if n > dst.Len {
			n = dst.Len
		}
		vals := make([]Value, n)
		for i := 0; i < n; i++ {
			vals[i] = h.ino.data[h.off+i]
		}
		vm.writeSlice(dst, 0, vals)
		h.off += n
		return TupleV{intV(n), IfaceV{}}
	}
	m["(*os.File).ReadAt"] = func(vm *VM, fn *ssa.Function, args []Value) Value {
		h := vm.handleOf(args[0])
		dst := args[1].(SliceV)
		off := vm.concreteInt(args[2].(*Term), "ReadAt offset")
		if h == nil || h.closed {
			return TupleV{intV(0), vm.pathErr("read", "?", "file already closed")}
		}
		vm.schedPoint("fs-read")
		if off < 0 {
			return TupleV{intV(0), vm.newErrorStr("negative offset")}
		}
		n := len(h.ino.data) - off
		if n < 0 {
			n = 0
		}
		if n > dst.Len {
			n = dst.Len
		}
		vals := make([]Value, n)
		for i := 0; i < n; i++ {
			vals[i] = h.ino.data[off+i]
		}
		vm.writeSlice(dst, 0, vals)
		if n < dst.Len {
			return TupleV{intV(n), vm.globalIface("io", "EOF")}
		}
		return TupleV{intV(n), IfaceV{}}
	}
	m["(*os.File).Seek"] = func(vm *VM, fn *ssa.Function, args []Value) Value {
		h := vm.handleOf(args[0])
		off := vm.concreteInt(args[1].(*Term), "Seek offset")
		whence := constInt(vm, args[2], "Seek whence")
		if h == nil || h.closed {
			return TupleV{intV(0), vm.pathErr("seek", "?", "file already closed")}
		}
		if vm.fsFault("seek " + h.name) {
			return TupleV{intV(0), vm.pathErr("seek", h.name, "io error")}
		}
		switch whence {
		case 0:
			h.off = off
		case 1:
			h.off += off
		case 2:
			h.off = len(h.ino.data) + off
		}
		if h.off < 0 {
			h.off = 0
			return TupleV{intV(0), vm.newErrorStr("seek: negative position")}
		}
		return TupleV{intV(h.off), IfaceV{}}
	}
	// io.Copy: generic chunked loop over the interface methods (the ReaderFrom/WriterTo
	// shortcuts of the real implementation move the same bytes).
	m["io.Copy"] = func(vm *VM, fn *ssa.Function, args []Value) Value {
		dst, src := args[0].(IfaceV), args[1].(IfaceV)
		chunk := 8
		if c, ok := vm.cfg.Params["copychunk"]; ok {
			chunk = c
		}
		total := 0
		for iter := 0; ; iter++ {
			if iter > vm.cfg.Unwind {
				panic(&engineError{msg: "io.Copy exceeded the unwinding bound"})
			}
			buf := vm.makeSlice(types.Typ[types.Uint8], chunk, chunk)
			r := vm.invokeByName(src, "Read", buf).(TupleV)
			n := constInt(vm, r[0], "Read count")
			if n > 0 {
				w := vm.invokeByName(dst, "Write", SliceV{Arr: buf.Arr, Off: 0, Len: n, Cap: chunk}).(TupleV)
				wn := constInt(vm, w[0], "Write count")
				total += wn
				if werr := w[1].(IfaceV); werr.Dyn != nil {
					return TupleV{intV(total), werr}
				}
				if wn < n {
					return TupleV{intV(total), vm.globalIface("io", "ErrShortWrite")}
				}
			}
			if rerr := r[1].(IfaceV); rerr.Dyn != nil {
				if vm.errorsIs(rerr, vm.globalIface("io", "EOF").(IfaceV)) {
					return TupleV{intV(total), IfaceV{}}
				}
				return TupleV{intV(total), rerr}
			}
			if n == 0 {
				// a reader returning (0, nil) forever would not terminate; count it against the bound
				continue
			}
		}
	}
	// harness access to the file-system model
	m["vocab.vFSFaults"] = func(vm *VM, fn *ssa.Function, args []Value) Value {
		vm.fs().faults = constInt(vm, args[0], "vFSFaults")
		return nil
	}
	m["vocab.vFSFaulted"] = func(vm *VM, fn *ssa.Function, args []Value) Value {
		for _, o := range vm.fs().ops {
			if strings.HasPrefix(o, "FAULT") {
				return tTrue
			}
		}
		return tFalse
	}
	m["vocab.vFSRemoveFaulted"] = func(vm *VM, fn *ssa.Function, args []Value) Value {
		for _, o := range vm.fs().ops {
			if strings.HasPrefix(o, "FAULT remove") {
				return tTrue
			}
		}
		return tFalse
	}
	m["vocab.vFSPutFile"] = func(vm *VM, fn *ssa.Function, args []Value) Value {
		f := vm.fs()
		name := cleanName(vm, args[0])
		f.nextIno++
		f.files[name] = &inode{id: f.nextIno, data: args[1].(StrV).Bytes()}
		return nil
	}
	m["vocab.vFSExists"] = func(vm *VM, fn *ssa.Function, args []Value) Value {
		_, ok := vm.fs().files[cleanName(vm, args[0])]
		return mkBool(ok)
	}
	m["vocab.vFSContent"] = func(vm *VM, fn *ssa.Function, args []Value) Value {
		ino, ok := vm.fs().files[cleanName(vm, args[0])]
		if !ok {
			return StrV{}
		}
		return strFromBytes(ino.data)
	}
	m["vocab.vFSCount"] = func(vm *VM, fn *ssa.Function, args []Value) Value {
		d := cleanName(vm, args[0])
		n := 0
		for name := range vm.fs().files {
			if strings.HasPrefix(name, d+"/") {
				n++
			}
		}
		return intV(n)
	}
	m["vocab.vFSBytes"] = func(vm *VM, fn *ssa.Function, args []Value) Value {
		d := cleanName(vm, args[0])
		n := 0
		for name, ino := range vm.fs().files {
			if strings.HasPrefix(name, d+"/") {
				n += len(ino.data)
			}
		}
		return intV(n)
	}
	m["vocab.vFSOps"] = func(vm *VM, fn *ssa.Function, args []Value) Value {
		ops := append([]string(nil), vm.fs().ops...)
		sort.Strings(ops)
		return mkStr(strings.Join(vm.fs().ops, ";"))
	}
}
