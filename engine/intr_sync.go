package main

import (
	"fmt"
	"go/types"
	"strings"

	"golang.org/x/tools/go/ssa"
)

type lockState struct {
	w      bool
	r      int
	other  bool        // held by a party outside the executing thread(s) (harness: vHoldLock)
	owner  int         // thread id of the writer
	rd     map[int]int // read holds per thread id
	parked bool        // a holder is a goroutine that is parked right now
	dead   bool        // a holder is a goroutine that ended without releasing it
	label  string
}

type lockEvent struct {
	Kind  string   // lock rlock trylock tryrlock unlock runlock io chan callback
	Lock  string   // label of the lock concerned ("" for io/chan/callback)
	Held  []string // labels of locks held by the acting thread before the event
	Where string
	OK    bool
}

func (vm *VM) lockKey(p PtrV) string {
	return fmt.Sprintf("%d%v", p.Obj.ID, p.Path)
}

// ptrLabel gives a human-readable name of the memory location p points to.
func (vm *VM) ptrLabel(p PtrV) string {
	if p.Obj == nil {
		return "nil"
	}
	if l, ok := vm.P.names[vm.lockKey(p)]; ok {
		return l
	}
	name := p.Obj.Name
	t := p.Obj.Typ
	var sb strings.Builder
	if t != nil {
		if n, ok := types.Unalias(t).(*types.Named); ok {
			name = n.Obj().Name()
		}
	}
	sb.WriteString(name)
	for _, i := range p.Path {
		if t != nil {
			switch u := t.Underlying().(type) {
			case *types.Struct:
				if i < u.NumFields() {
					sb.WriteString("." + u.Field(i).Name())
					t = u.Field(i).Type()
					continue
				}
			case *types.Array:
				fmt.Fprintf(&sb, "[%d]", i)
				t = u.Elem()
				continue
			}
		}
		fmt.Fprintf(&sb, "[%d]", i)
		t = nil
	}
	return sb.String()
}

func (vm *VM) getLock(p PtrV) *lockState {
	if p.Obj == nil {
		vm.goPanicRuntime("nil pointer dereference (mutex)")
	}
	k := vm.lockKey(p)
	ls, ok := vm.P.locks[k]
	if !ok {
		ls = &lockState{label: vm.ptrLabel(p)}
		vm.P.locks[k] = ls
	}
	return ls
}

func (vm *VM) heldLabels() []string {
	var out []string
	for _, k := range vm.P.heldOrder {
		out = append(out, vm.P.locks[k].label)
	}
	return out
}

func (vm *VM) lockEventLog(kind string, ls *lockState, ok bool) {
	lbl := ""
	if ls != nil {
		lbl = ls.label
	}
	ev := lockEvent{Kind: kind, Lock: lbl, Held: vm.heldLabels(), Where: vm.where(), OK: ok}
	vm.P.lockEvents = append(vm.P.lockEvents, ev)
	if vm.P.lockMonitor == "" {
		return
	}
	// lock-discipline premises of DESIGN §C14(A), checked as the events happen
	inner := vm.P.lockMonitor
	isInner := func(l string) bool { return strings.HasSuffix(l, inner) }
	holdsInner, holdsShard := false, false
	for _, h := range ev.Held {
		if isInner(h) {
			holdsInner = true
		} else {
			holdsShard = true
		}
	}
	switch kind {
	case "lock", "rlock":
		vm.P.Oblig++
		switch {
		case holdsInner:
			vm.recordViolation("c14.lock-acquired-while-holding-map-lock", fmt.Sprintf("%s of %s while holding %v", kind, lbl, ev.Held), tTrue)
		case holdsShard && !isInner(lbl):
			vm.recordViolation("c14.blocking-shard-acquire-while-holding-a-shard-lock", fmt.Sprintf("blocking %s of %s while holding %v", kind, lbl, ev.Held), tTrue)
		default:
			vm.P.Discharged++
		}
	case "trylock", "tryrlock", "io", "chan", "callback":
		vm.P.Oblig++
		if holdsInner {
			vm.recordViolation("c14.map-lock-held-across-"+kind, fmt.Sprintf("%s %s while holding the map lock %v", kind, lbl, ev.Held), tTrue)
		} else if kind == "chan" && holdsShard {
			vm.recordViolation("c14.channel-operation-while-holding-a-lock", fmt.Sprintf("channel operation while holding %v", ev.Held), tTrue)
		} else {
			vm.P.Discharged++
		}
	}
}

func (vm *VM) addHeld(k string) { vm.P.heldOrder = append(vm.P.heldOrder, k) }
func (vm *VM) delHeld(k string) {
	for i := len(vm.P.heldOrder) - 1; i >= 0; i-- {
		if vm.P.heldOrder[i] == k {
			vm.P.heldOrder = append(vm.P.heldOrder[:i], vm.P.heldOrder[i+1:]...)
			return
		}
	}
}

func (vm *VM) lockWrite(p PtrV, try bool) bool {
	ls := vm.getLock(p)
	k := vm.lockKey(p)
	vm.schedPoint("lock")
	if !ls.w && ls.r == 0 {
		kind := "lock"
		if try {
			kind = "trylock"
		}
		vm.lockEventLog(kind, ls, true)
		ls.w = true
		ls.other = false
		ls.owner = vm.P.curThread
		vm.addHeld(k)
		vm.raceAcquire(k, true)
		vm.onLockAcquired(try)
		return true
	}
	if try {
		vm.lockEventLog("trylock", ls, false)
		return false
	}
	vm.lockEventLog("lock", ls, false)
	vm.blockedOnLock(ls, "Lock", func() bool { return !ls.w && ls.r == 0 })
	return vm.lockWrite(p, try)
}

// onLockAcquired runs the harness hook registered with vOnLockAcquired (thread 1, blocking
// acquires only): the harness uses it to take a clock reading "when the lock was obtained".
func (vm *VM) onLockAcquired(try bool) {
	h := vm.P.onLock
	if h == nil || try || vm.P.curThread != 1 || vm.P.inHook {
		return
	}
	vm.P.inHook = true
	saved, savedDepth := vm.cur, vm.depth
	vm.callValue(h, nil, nil)
	vm.cur, vm.depth = saved, savedDepth
	vm.P.inHook = false
}

// blockedOnLock: a blocking acquire found the lock taken.  It returns when the lock may be
// tried again (the caller loops); otherwise the path ends.
func (vm *VM) blockedOnLock(ls *lockState, op string, free func() bool) {
	cur := vm.P.curThread
	mine := (ls.w && ls.owner == cur && !ls.other) || ls.rd[cur] > 0
	switch {
	case mine:
		vm.P.Oblig++
		vm.recordViolation("deadlock.self-lock", "blocking "+op+" on "+ls.label+" which the same thread already holds", tTrue)
		panic(&pathEnd{"self-deadlock"})
	case ls.other:
		// held by the harness on behalf of somebody else: released only if the harness does
		vm.block(op+" on "+ls.label+" held by another party", free)
	case cur == 2:
		vm.block(op+" on "+ls.label+" held by the main thread", nil)
	case ls.dead || (ls.w && ls.owner == 2):
		// that operation / goroutine is over, so nobody will ever release this lock
		vm.P.Oblig++
		vm.recordViolation("deadlock.lock-never-released", op+" on "+ls.label+" which an operation that already returned still holds", tTrue)
		panic(&pathEnd{"deadlock"})
	default:
		// held by a goroutine (parked or not yet scheduled again) or, for a goroutine, by the main thread
		vm.block(op+" on "+ls.label+" held by another goroutine", free)
	}
}

func (vm *VM) lockRead(p PtrV, try bool) bool {
	ls := vm.getLock(p)
	k := vm.lockKey(p)
	vm.schedPoint("rlock")
	if !ls.w {
		kind := "rlock"
		if try {
			kind = "tryrlock"
		}
		vm.lockEventLog(kind, ls, true)
		ls.r++
		if ls.rd == nil {
			ls.rd = map[int]int{}
		}
		ls.rd[vm.P.curThread]++
		vm.addHeld(k)
		vm.raceAcquire(k, false)
		return true
	}
	if try {
		vm.lockEventLog("tryrlock", ls, false)
		return false
	}
	vm.lockEventLog("rlock", ls, false)
	vm.blockedOnLock(ls, "RLock", func() bool { return !ls.w })
	return vm.lockRead(p, try)
}

func (vm *VM) unlockWrite(p PtrV) {
	ls := vm.getLock(p)
	if !ls.w {
		vm.P.Oblig++
		vm.recordViolation("fatal.unlock-of-unlocked", "Unlock of unlocked "+ls.label, tTrue)
		panic(&pathEnd{"fatal"})
	}
	vm.lockEventLog("unlock", ls, true)
	ls.w = false
	vm.raceRelease(vm.lockKey(p), true)
	vm.delHeld(vm.lockKey(p))
	vm.schedPoint("unlock")
}

func (vm *VM) unlockRead(p PtrV) {
	ls := vm.getLock(p)
	if ls.r == 0 {
		vm.P.Oblig++
		vm.recordViolation("fatal.runlock-of-unlocked", "RUnlock of unlocked "+ls.label, tTrue)
		panic(&pathEnd{"fatal"})
	}
	vm.lockEventLog("runlock", ls, true)
	ls.r--
	if ls.rd[vm.P.curThread] > 0 {
		ls.rd[vm.P.curThread]--
	}
	vm.raceRelease(vm.lockKey(p), false)
	vm.delHeld(vm.lockKey(p))
	vm.schedPoint("runlock")
}

func lastField(vm *VM, p PtrV) PtrV {
	sv, ok := vm.navigate(p.Obj.Val, p.Path).(*StructV)
	if !ok {
		panic(vm.fail("atomic receiver is not a struct"))
	}
	return ptrField(p, len(sv.F)-1)
}

func addSync(m map[string]Intrinsic) {
	for _, ty := range []string{"RWMutex", "Mutex"} {
		ty := ty
		m["(*sync."+ty+").Lock"] = func(vm *VM, fn *ssa.Function, args []Value) Value {
			vm.lockWrite(args[0].(PtrV), false)
			return nil
		}
		m["(*sync."+ty+").TryLock"] = func(vm *VM, fn *ssa.Function, args []Value) Value {
			return mkBool(vm.lockWrite(args[0].(PtrV), true))
		}
		m["(*sync."+ty+").Unlock"] = func(vm *VM, fn *ssa.Function, args []Value) Value {
			vm.unlockWrite(args[0].(PtrV))
			return nil
		}
	}
	m["(*sync.RWMutex).RLock"] = func(vm *VM, fn *ssa.Function, args []Value) Value {
		vm.lockRead(args[0].(PtrV), false)
		return nil
	}
	m["(*sync.RWMutex).TryRLock"] = func(vm *VM, fn *ssa.Function, args []Value) Value {
		return mkBool(vm.lockRead(args[0].(PtrV), true))
	}
	m["(*sync.RWMutex).RUnlock"] = func(vm *VM, fn *ssa.Function, args []Value) Value {
		vm.unlockRead(args[0].(PtrV))
		return nil
	}
	// harness control over locks held by "someone else"
	m["vocab.vHoldLock"] = func(vm *VM, fn *ssa.Function, args []Value) Value {
		ls := vm.getLock(args[0].(PtrV))
		if args[1].(*Term).BoolVal() {
			ls.w = true
		} else {
			ls.r++
		}
		ls.other = true
		return nil
	}
	m["vocab.vReleaseLock"] = func(vm *VM, fn *ssa.Function, args []Value) Value {
		ls := vm.getLock(args[0].(PtrV))
		ls.w = false
		ls.r = 0
		ls.rd = nil
		ls.other = false
		return nil
	}
	m["vocab.vLockFree"] = func(vm *VM, fn *ssa.Function, args []Value) Value {
		ls := vm.getLock(args[0].(PtrV))
		return mkBool(!ls.w && ls.r == 0)
	}
	m["vocab.vHeldCount"] = func(vm *VM, fn *ssa.Function, args []Value) Value {
		return intV(len(vm.P.heldOrder))
	}
	m["vocab.vName"] = func(vm *VM, fn *ssa.Function, args []Value) Value {
		vm.P.names[vm.lockKey(args[0].(PtrV))] = constStr(vm, args[1], "vName")
		return nil
	}
	// vLockDiscipline(): checks the recorded lock events of this path against the premises
	// of DESIGN §C14(A); each broken premise is a violation with its own id.
	m["vocab.vLockDiscipline"] = func(vm *VM, fn *ssa.Function, args []Value) Value {
		innermost := constStr(vm, args[0], "vLockDiscipline innermost")
		for _, ev := range vm.P.lockEvents {
			switch ev.Kind {
			case "lock", "rlock":
				vm.P.Oblig++
				if len(ev.Held) > 0 {
					vm.recordViolation("lockorder.blocking-acquire-while-holding", fmt.Sprintf("blocking %s of %s while holding %v at %s", ev.Kind, ev.Lock, ev.Held, ev.Where), tTrue)
				} else {
					vm.P.Discharged++
				}
			case "trylock", "tryrlock", "io", "chan", "callback":
				vm.P.Oblig++
				bad := false
				for _, h := range ev.Held {
					if strings.HasSuffix(h, innermost) {
						bad = true
					}
				}
				if bad {
					vm.recordViolation("lockorder.innermost-held-across-"+ev.Kind, fmt.Sprintf("%s %s while holding innermost lock %v at %s", ev.Kind, ev.Lock, ev.Held, ev.Where), tTrue)
				} else {
					vm.P.Discharged++
				}
			}
		}
		vm.P.Oblig++
		if len(vm.P.heldOrder) > 0 {
			vm.recordViolation("lockorder.lock-leaked", fmt.Sprintf("locks still held at the end of the operation: %v", vm.heldLabels()), tTrue)
		} else {
			vm.P.Discharged++
		}
		return nil
	}
	// vLockMonitor(innermost): from now on every lock / IO / channel event is checked against
	// the lock-order premises; innermost names the map lock (label suffix, e.g. ".mu")
	m["vocab.vLockMonitor"] = func(vm *VM, fn *ssa.Function, args []Value) Value {
		vm.P.lockMonitor = constStr(vm, args[0], "vLockMonitor")
		return nil
	}
	m["vocab.vLocksLeaked"] = func(vm *VM, fn *ssa.Function, args []Value) Value {
		return intV(len(vm.P.heldOrder))
	}
	// vInterpose(f, budget): f is one operation of a second thread; it may run (atomically) at
	// any later scheduling point of the main thread, at most `budget` times per path.
	m["vocab.vInterpose"] = func(vm *VM, fn *ssa.Function, args []Value) Value {
		vm.P.interpose = args[0]
		vm.P.interposeBudget = constInt(vm, args[1], "vInterpose budget")
		if f, ok := args[0].(*FuncV); ok && f == nil {
			vm.P.interpose = nil
		}
		return nil
	}
	// vInterposeAtomics(on): atomic operations are scheduling points for the interposed operation too
	m["vocab.vInterposeAtomics"] = func(vm *VM, fn *ssa.Function, args []Value) Value {
		vm.P.interposeAtomics = args[0].(*Term).BoolVal()
		return nil
	}
	m["vocab.vPreemptGoroutines"] = func(vm *VM, fn *ssa.Function, args []Value) Value {
		vm.P.gorPreempt = constInt(vm, args[0], "vPreemptGoroutines budget")
		return nil
	}
	m["vocab.vConcurrent"] = func(vm *VM, fn *ssa.Function, args []Value) Value {
		f, _ := args[0].(*FuncV)
		pg := &pendingGo{fn: f, label: vm.where(), tid: vm.newTid()}
		if rs := vm.P.race; rs != nil && rs.on {
			my := rs.clockOf(vm.P.curThread)
			pg.vc = my.copy()
			pg.vc[pg.tid] = 1
			my[vm.P.curThread]++
		}
		vm.P.conc = &coro{pg: pg, resume: make(chan bool), yield: make(chan coroMsg)}
		vm.P.concBudget = constInt(vm, args[1], "vConcurrent switches")
		vm.P.concDone = false
		return nil
	}
	m["vocab.vJoin"] = func(vm *VM, fn *ssa.Function, args []Value) Value {
		vm.concJoin()
		started := vm.P.conc != nil && vm.P.conc.started
		vm.P.conc = nil
		return mkBool(started)
	}
	m["vocab.vInterposed"] = func(vm *VM, fn *ssa.Function, args []Value) Value {
		return intV(len(vm.P.interposedAt))
	}
	m["vocab.vThread2LocksLeaked"] = func(vm *VM, fn *ssa.Function, args []Value) Value {
		return intV(len(vm.P.thread2Held))
	}
	m["vocab.vRaceBegin"] = func(vm *VM, fn *ssa.Function, args []Value) Value {
		vm.raceBegin()
		return nil
	}
	m["vocab.vRaceEnd"] = func(vm *VM, fn *ssa.Function, args []Value) Value {
		if vm.P.race != nil {
			vm.P.race.on = false
		}
		return nil
	}
	m["vocab.vOnLockAcquired"] = func(vm *VM, fn *ssa.Function, args []Value) Value {
		vm.P.onLock = args[0]
		if f, ok := args[0].(*FuncV); ok && f == nil {
			vm.P.onLock = nil
		}
		return nil
	}
	m["vocab.vResetLockEvents"] = func(vm *VM, fn *ssa.Function, args []Value) Value {
		vm.P.lockEvents = nil
		return nil
	}

	// sync.Once
	m["(*sync.Once).Do"] = func(vm *VM, fn *ssa.Function, args []Value) Value {
		k := "once:" + vm.lockKey(args[0].(PtrV))
		if _, done := vm.P.env[k]; done {
			return nil
		}
		vm.P.env[k] = tTrue
		vm.callValue(args[1], nil, nil)
		return nil
	}
	// sync.WaitGroup (sequential): Wait runs queued goroutines
	m["(*sync.WaitGroup).Add"] = nop
	m["(*sync.WaitGroup).Done"] = nop
	m["(*sync.WaitGroup).Wait"] = func(vm *VM, fn *ssa.Function, args []Value) Value {
		vm.runPendingGoroutines()
		return nil
	}

	// sync/atomic typed values: the payload is the last field of the struct
	for _, ty := range []string{"Int64", "Int32", "Uint64", "Uint32", "Uintptr"} {
		ty := ty
		m["(*sync/atomic."+ty+").Load"] = func(vm *VM, fn *ssa.Function, args []Value) Value {
			vm.schedPoint("atomic")
			return vm.loadAtomic(lastField(vm, args[0].(PtrV)))
		}
		m["(*sync/atomic."+ty+").Store"] = func(vm *VM, fn *ssa.Function, args []Value) Value {
			vm.schedPoint("atomic")
			vm.storeAtomic(lastField(vm, args[0].(PtrV)), args[1])
			return nil
		}
		m["(*sync/atomic."+ty+").Add"] = func(vm *VM, fn *ssa.Function, args []Value) Value {
			vm.schedPoint("atomic")
			p := lastField(vm, args[0].(PtrV))
			n := mkBVBin("bvadd", vm.loadAtomic(p).(*Term), args[1].(*Term))
			vm.storeAtomic(p, n)
			return n
		}
		m["(*sync/atomic."+ty+").Swap"] = func(vm *VM, fn *ssa.Function, args []Value) Value {
			vm.schedPoint("atomic")
			p := lastField(vm, args[0].(PtrV))
			old := vm.loadAtomic(p)
			vm.storeAtomic(p, args[1])
			return old
		}
		m["(*sync/atomic."+ty+").CompareAndSwap"] = func(vm *VM, fn *ssa.Function, args []Value) Value {
			vm.schedPoint("atomic")
			p := lastField(vm, args[0].(PtrV))
			old := vm.loadAtomic(p).(*Term)
			if vm.branch(mkEq(old, args[1].(*Term))) {
				vm.storeAtomic(p, args[2])
				return tTrue
			}
			return tFalse
		}
	}
	// atomic.Pointer[T] (generic: looked up through the method's origin)
	m["(*sync/atomic.Pointer[T]).Load"] = func(vm *VM, fn *ssa.Function, args []Value) Value {
		vm.schedPoint("atomic")
		v := vm.loadAtomic(lastField(vm, args[0].(PtrV)))
		if p, ok := v.(PtrV); ok {
			return p
		}
		return PtrV{}
	}
	m["(*sync/atomic.Pointer[T]).Store"] = func(vm *VM, fn *ssa.Function, args []Value) Value {
		vm.schedPoint("atomic")
		vm.storeAtomic(lastField(vm, args[0].(PtrV)), args[1])
		return nil
	}
	m["(*sync/atomic.Pointer[T]).Swap"] = func(vm *VM, fn *ssa.Function, args []Value) Value {
		vm.schedPoint("atomic")
		p := lastField(vm, args[0].(PtrV))
		old, _ := vm.loadAtomic(p).(PtrV)
		vm.storeAtomic(p, args[1])
		return old
	}
	m["(*sync/atomic.Pointer[T]).CompareAndSwap"] = func(vm *VM, fn *ssa.Function, args []Value) Value {
		vm.schedPoint("atomic")
		p := lastField(vm, args[0].(PtrV))
		old, _ := vm.loadAtomic(p).(PtrV)
		want := args[1].(PtrV)
		if old.Obj == want.Obj && fmt.Sprint(old.Path) == fmt.Sprint(want.Path) {
			vm.storeAtomic(p, args[2])
			return tTrue
		}
		return tFalse
	}
	m["(*sync/atomic.Bool).Load"] = func(vm *VM, fn *ssa.Function, args []Value) Value {
		vm.schedPoint("atomic")
		v := vm.loadAtomic(lastField(vm, args[0].(PtrV))).(*Term)
		return mkNot(mkEq(v, mkBV(32, 0)))
	}
	m["(*sync/atomic.Bool).Store"] = func(vm *VM, fn *ssa.Function, args []Value) Value {
		vm.schedPoint("atomic")
		vm.storeAtomic(lastField(vm, args[0].(PtrV)), mkIte(args[1].(*Term), mkBV(32, 1), mkBV(32, 0)))
		return nil
	}
	m["(*sync/atomic.Value).Load"] = func(vm *VM, fn *ssa.Function, args []Value) Value {
		vm.schedPoint("atomic")
		return vm.loadAtomic(lastField(vm, args[0].(PtrV)))
	}
	m["(*sync/atomic.Value).Store"] = func(vm *VM, fn *ssa.Function, args []Value) Value {
		vm.schedPoint("atomic")
		if args[1].(IfaceV).Dyn == nil {
			panic(&goPanic{runtime: "sync/atomic: store of nil value into Value", where: vm.where()})
		}
		vm.storeAtomic(lastField(vm, args[0].(PtrV)), args[1])
		return nil
	}
	m["(*sync/atomic.Value).Swap"] = func(vm *VM, fn *ssa.Function, args []Value) Value {
		vm.schedPoint("atomic")
		p := lastField(vm, args[0].(PtrV))
		old := vm.loadAtomic(p)
		vm.storeAtomic(p, args[1])
		return old
	}
	m["(*sync/atomic.Value).CompareAndSwap"] = func(vm *VM, fn *ssa.Function, args []Value) Value {
		vm.schedPoint("atomic")
		p := lastField(vm, args[0].(PtrV))
		old := vm.loadAtomic(p).(IfaceV)
		c := vm.valueEq(old, args[1])
		if vm.branch(c) {
			vm.storeAtomic(p, args[2])
			return tTrue
		}
		return tFalse
	}
}

// atomic accesses are synchronising: they never race (no noteAccess) and create HB edges.
func (vm *VM) loadAtomic(p PtrV) Value {
	vm.atomicHB(p, false)
	return vm.navigate(p.Obj.Val, p.Path)
}

func (vm *VM) storeAtomic(p PtrV, v Value) {
	vm.atomicHB(p, true)
	vm.setObj(p.Obj, vm.update(p.Obj.Val, p.Path, v))
}

