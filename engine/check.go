package main

// `gosym check <ID> --tier quick|thorough`: runs every harness registered for a property in
// /verif/checks.json, classifies violations against /verif/known_findings.json, replays new
// ones, writes /verif/evidence/<ID>.json and prints the VIOLATION / KNOWN-FINDING lines.

import (
	"encoding/json"
	"flag"
	"fmt"
	"os"
	"os/exec"
	"path/filepath"
	"sort"
	"strings"
	"time"
)

type RunSpec struct {
	Entry    string         `json:"entry"`
	Quick    map[string]int `json:"quick"`
	Thorough map[string]int `json:"thorough"`
	Reach    []string       `json:"reach"`
	Replay   string         `json:"replay"` // "native" | "engine" | ""
	Unwind   int            `json:"unwind"`
	MaxPaths int            `json:"maxpaths"`
	Note     string         `json:"note"`
	Permute  bool           `json:"permute_maps"`
	OnlyTier string         `json:"only_tier"`
}

type CheckSpec struct {
	Title       string    `json:"title"`
	Runs        []RunSpec `json:"runs"`
	Assumptions []string  `json:"assumptions"`
	Stubs       []string  `json:"stubs"`
	Bounds      string    `json:"bounds"`
	Outside     string    `json:"outside"`
}

type KnownFinding struct {
	Property string `json:"property"`
	ID       string `json:"id"`   // violation id (assert id) — identifies the failing site/class
	Text     string `json:"text"` // what fails
	Fixed    string `json:"fixed,omitempty"`
	Commit   string `json:"commit,omitempty"`
}

type harnessResult struct {
	Entry      string         `json:"entry"`
	Params     map[string]int `json:"params"`
	Paths      int            `json:"paths"`
	PathsObl   int            `json:"paths_with_obligation"`
	Branches   int            `json:"branch_decisions"`
	Steps      int64          `json:"ssa_instructions"`
	Oblig      int            `json:"obligations"`
	Discharged int            `json:"discharged"`
	Queries    int            `json:"queries"`
	SolverS    float64        `json:"solver_s"`
	WallS      float64        `json:"wall_s"`
	Unknown    int            `json:"unknown"`
	Reach      map[string]int `json:"reach"`
	EndReasons map[string]int `json:"end_reasons"`
	Notes      map[string]int `json:"notes,omitempty"`
	Violations map[string]int `json:"violations,omitempty"`
	Exhaustive bool           `json:"exhaustive"`
	Errors     []string       `json:"errors,omitempty"`
}

func cmdCheck(args []string) int {
	fs := flag.NewFlagSet("check", flag.ExitOnError)
	tier := fs.String("tier", "quick", "")
	repo := fs.String("repo", "/repo", "")
	vdir := fs.String("verif", "/verif", "")
	workers := fs.Int("workers", 16, "")
	solver := fs.String("solver", "z3-new", "")
	only := fs.String("only", "", "run only entries containing this substring")
	noEvidence := fs.Bool("no-evidence", false, "")
	var id string
	rest := args
	if len(rest) > 0 && !strings.HasPrefix(rest[0], "-") {
		id = rest[0]
		rest = rest[1:]
	}
	fs.Parse(rest)
	if id == "" && fs.NArg() > 0 {
		id = fs.Arg(0)
	}
	if t := os.Getenv("VERIF_TIER"); t != "" && *tier == "" {
		*tier = t
	}
	t0 := time.Now()

	var checks map[string]CheckSpec
	if err := readJSON(filepath.Join(*vdir, "checks.json"), &checks); err != nil {
		fmt.Fprintln(os.Stderr, "checks.json:", err)
		return 2
	}
	spec, ok := checks[id]
	if !ok {
		fmt.Fprintln(os.Stderr, "no check registered for", id)
		return 2
	}
	var known []KnownFinding
	readJSON(filepath.Join(*vdir, "known_findings.json"), &known)
	// bounds / trusted base text of the property (meta.json is what MANIFEST.json is generated from)
	var meta map[string]struct {
		LevelNote string `json:"level_note"`
	}
	readJSON(filepath.Join(*vdir, "meta.json"), &meta)
	if m, ok := meta[id]; ok && spec.Bounds == "" {
		spec.Bounds = m.LevelNote
		spec.Assumptions = append(spec.Assumptions, "bounds, stubs and what lies outside the claim: "+m.LevelNote)
	}

	ld, err := Load(*repo, filepath.Join(*vdir, "harness"), nil)
	if err != nil {
		fmt.Fprintln(os.Stderr, "TOOL-ERROR load:", err)
		writeEvidence(*vdir, id, *tier, nil, spec, nil, time.Since(t0), -1, []string{"load: " + err.Error()}, *noEvidence)
		return 2
	}
	loadS := time.Since(t0).Seconds()

	var results []harnessResult
	funcs := map[string]bool{}
	var samples []string
	allViol := map[string][]*Violation{}
	violCount := map[string]int{}
	var toolErrors []string
	for _, rs := range spec.Runs {
		if *only != "" && !strings.Contains(rs.Entry, *only) {
			continue
		}
		if rs.OnlyTier != "" && rs.OnlyTier != *tier {
			continue
		}
		i := strings.LastIndex(rs.Entry, ".")
		fn := ld.FuncByName(rs.Entry[:i], rs.Entry[i+1:])
		if fn == nil {
			toolErrors = append(toolErrors, "entry not found: "+rs.Entry)
			continue
		}
		params := rs.Quick
		qt := 20000
		if *tier == "thorough" {
			params = map[string]int{}
			for k, v := range rs.Quick {
				params[k] = v
			}
			for k, v := range rs.Thorough {
				params[k] = v
			}
			qt = 120000
		}
		if params == nil {
			params = map[string]int{}
		}
		unwind := rs.Unwind
		if unwind == 0 {
			unwind = 64
		}
		if u, ok := params["unwind"]; ok {
			unwind = u
		}
		cfg := &RunConfig{Unwind: unwind, MaxConcretize: 64, Workers: *workers, SolverBin: *solver, QueryTimeout: qt,
			MaxPaths: rs.MaxPaths, Params: params, Tier: *tier, PermuteMaps: rs.Permute}
		// a wall-clock cap per harness (quick 15 min, thorough 2 h): a path space that a changed
		// tree makes explode ends as "inconclusive" (exit 2) instead of running for ever
		limit := 15 * time.Minute
		if *tier == "thorough" {
			limit = 2 * time.Hour
		}
		if d, ok := params["deadline_s"]; ok {
			limit = time.Duration(d) * time.Second
		}
		cfg.Deadline = time.Now().Add(limit)
		ex := NewExplorer(ld, fn, cfg)
		t1 := time.Now()
		ex.Run()
		hr := harnessResult{Entry: rs.Entry, Params: params, Paths: ex.Paths, PathsObl: ex.PathsWithOb, Branches: ex.Branches,
			Steps: ex.Steps, Oblig: ex.Oblig, Discharged: ex.Discharged, Queries: ex.Queries, SolverS: round2(ex.SolverTime.Seconds()),
			WallS: round2(time.Since(t1).Seconds()), Unknown: ex.Unknowns, Reach: ex.Reach, EndReasons: ex.EndReasons, Notes: ex.Notes,
			Violations: ex.ViolCount, Exhaustive: !ex.Truncated && len(ex.Errors) == 0 && ex.Unknowns == 0, Errors: ex.Errors}
		results = append(results, hr)
		for f := range ex.Funcs {
			funcs[f] = true
		}
		for _, s := range ex.Samples {
			if len(samples) < 12 {
				samples = append(samples, shortEntry(rs.Entry)+": "+s)
			}
		}
		for k, vs := range ex.Viol {
			allViol[k] = append(allViol[k], vs...)
			violCount[k] += ex.ViolCount[k]
		}
		for _, e := range ex.Errors {
			toolErrors = append(toolErrors, shortEntry(rs.Entry)+": "+e)
		}
		if ex.Unknowns > 0 {
			toolErrors = append(toolErrors, fmt.Sprintf("%s: %d paths had solver-unknown branch/obligation results (inconclusive)", shortEntry(rs.Entry), ex.Unknowns))
		}
		// vacuity: required reach labels
		for _, l := range rs.Reach {
			if ex.Reach[l] == 0 {
				toolErrors = append(toolErrors, fmt.Sprintf("%s: vacuity witness %q not reached by any feasible path", shortEntry(rs.Entry), l))
			}
		}
		for k, n := range ex.Notes {
			fmt.Printf("NOTE: property=%s %s (x%d)\n", id, k, n)
		}
		fmt.Fprintf(os.Stderr, "[%s] %s paths=%d oblig=%d/%d queries=%d solver=%.1fs wall=%.1fs viol=%d\n", id, shortEntry(rs.Entry),
			ex.Paths, ex.Discharged, ex.Oblig, ex.Queries, ex.SolverTime.Seconds(), time.Since(t1).Seconds(), len(ex.Viol))
	}

	// classify violations
	knownByID := map[string]KnownFinding{}
	for _, k := range known {
		if k.Property == id && k.Fixed == "" {
			knownByID[k.ID] = k
		}
	}
	ids := make([]string, 0, len(allViol))
	for k := range allViol {
		ids = append(ids, k)
	}
	sort.Strings(ids)
	exit := 0
	newViol := 0
	replayDir := filepath.Join(*vdir, "evidence", "replay")
	var replayed int
	var violSummaries []map[string]interface{}
	for _, vid := range ids {
		v := allViol[vid][0]
		if kf, ok := knownByID[vid]; ok {
			fmt.Printf("KNOWN-FINDING: property=%s %s [%s; witness: %s]\n", id, kf.Text, vid, caseSummary(v))
			continue
		}
		// replay
		os.MkdirAll(replayDir, 0o755)
		path := filepath.Join(replayDir, fmt.Sprintf("%s-%s.json", id, sanitize(vid)))
		rf := map[string]interface{}{"property": id, "violation": v, "params": paramsFor(spec, v.Harness, *tier)}
		b, _ := json.MarshalIndent(rf, "", " ")
		os.WriteFile(path, b, 0o644)
		mode := replayMode(spec, v.Harness)
		status := "not-replayed"
		if mode == "native" {
			ok, out := nativeReplay(*repo, filepath.Join(*vdir, "harness"), v, paramsFor(spec, v.Harness, *tier))
			if ok {
				status = "reproduced-natively"
				replayed++
			} else {
				status = "NOT-reproduced-natively"
				fmt.Printf("MODEL-ERROR: property=%s violation %s was not reproduced by the native replay: %s\n", id, vid, out)
				toolErrors = append(toolErrors, "model error: "+vid+" not reproduced natively")
				continue
			}
		}
		newViol++
		exit = 1
		fmt.Printf("VIOLATION property=%s replay=%s id=%s %s [%s] (%s; witness: %s)\n", id, path, vid, v.Detail, v.Where, status, caseSummary(v))
		violSummaries = append(violSummaries, map[string]interface{}{"id": vid, "detail": v.Detail, "where": v.Where, "replay": status, "count": violCount[vid]})
	}
	for _, e := range toolErrors {
		fmt.Printf("TOOL-ERROR: property=%s %s\n", id, e)
	}
	if len(toolErrors) > 0 && exit == 0 {
		exit = 2
	}
	nv := newViol
	if exit == 2 {
		nv = -1
	}
	ev := buildEvidence(id, *tier, results, spec, funcs, samples, loadS, replayed, knownByID, allViol, violSummaries)
	writeEvidence(*vdir, id, *tier, ev, spec, results, time.Since(t0), nv, toolErrors, *noEvidence)
	if exit == 0 {
		fmt.Printf("OK property=%s tier=%s harnesses=%d wall=%.1fs\n", id, *tier, len(results), time.Since(t0).Seconds())
	}
	return exit
}

func round2(f float64) float64 { return float64(int(f*100)) / 100 }

func shortEntry(e string) string {
	if i := strings.LastIndex(e, "."); i >= 0 {
		return e[i+1:]
	}
	return e
}

func sanitize(s string) string {
	r := strings.NewReplacer("/", "_", ":", "_", " ", "_", "*", "_", "(", "_", ")", "_")
	return r.Replace(s)
}

func readJSON(path string, v interface{}) error {
	b, err := os.ReadFile(path)
	if err != nil {
		return err
	}
	return json.Unmarshal(b, v)
}

func caseSummary(v *Violation) string {
	var parts []string
	for _, c := range v.Case {
		switch c.Kind {
		case "string", "bytes":
			parts = append(parts, fmt.Sprintf("%q", string(c.Bytes)))
		case "int":
			parts = append(parts, fmt.Sprintf("%d", c.Int))
		case "bool":
			parts = append(parts, fmt.Sprintf("%v", c.Bool))
		case "choice":
			parts = append(parts, fmt.Sprintf("#%d", c.Int))
		}
	}
	s := strings.Join(parts, ",")
	if len(s) > 160 {
		s = s[:160] + "…"
	}
	return s
}

func replayMode(spec CheckSpec, harness string) string {
	for _, r := range spec.Runs {
		if r.Entry == harness {
			return r.Replay
		}
	}
	return ""
}

func paramsFor(spec CheckSpec, harness, tier string) map[string]int {
	for _, r := range spec.Runs {
		if r.Entry == harness {
			p := map[string]int{}
			for k, v := range r.Quick {
				p[k] = v
			}
			if tier == "thorough" {
				for k, v := range r.Thorough {
					p[k] = v
				}
			}
			return p
		}
	}
	return nil
}

func buildEvidence(id, tier string, results []harnessResult, spec CheckSpec, funcs map[string]bool, samples []string,
	loadS float64, replayed int, known map[string]KnownFinding, allViol map[string][]*Violation, viols []map[string]interface{}) map[string]interface{} {
	paths, nontriv, branches, oblig, disch, queries, unknown := 0, 0, 0, 0, 0, 0, 0
	var steps int64
	solverS := 0.0
	exhaustive := true
	for _, r := range results {
		paths += r.Paths
		nontriv += r.PathsObl
		branches += r.Branches
		steps += r.Steps
		oblig += r.Oblig
		disch += r.Discharged
		queries += r.Queries
		solverS += r.SolverS
		unknown += r.Unknown
		if !r.Exhaustive {
			exhaustive = false
		}
	}
	fl := make([]string, 0, len(funcs))
	for f := range funcs {
		fl = append(fl, f)
	}
	sort.Strings(fl)
	var kf []string
	for vid := range allViol {
		if k, ok := known[vid]; ok {
			kf = append(kf, vid+": "+k.Text)
		}
	}
	sort.Strings(kf)
	var smp []interface{}
	for _, s := range samples {
		smp = append(smp, s)
	}
	if len(smp) == 0 {
		smp = append(smp, "no path reached an obligation")
	}
	cov := map[string]interface{}{
		"evaluations":                   paths,
		"distinct_nontrivial":           nontriv,
		"rule":                          "one evaluation = one feasible symbolic path of a harness over the real SSA of /repo (every input byte/integer/clock value/choice is a solver variable; the path's decision string is unique); non-trivial = the path reached at least one obligation (assertion or no-panic check)",
		"samples":                       smp,
		"states":                        paths,
		"transitions":                   branches,
		"traces_validated_against_impl": replayed,
		"obligations":                   oblig,
		"discharged":                    disch,
		"exhaustive":                    exhaustive,
		"queries":                       queries,
		"solver_s":                      round2(solverS),
		"unknown":                       unknown,
		"ssa_instructions_executed":     steps,
		"functions_encoded":             fl,
		"harnesses":                     results,
		"bounds":                        spec.Bounds,
		"outside":                       spec.Outside,
		"stubs":                         spec.Stubs,
		"load_and_ssa_build_s":          round2(loadS),
		"known_findings_seen":           kf,
		"new_violations":                viols,
		"solver":                        "z3 5.1.0 (z3-new -in), incremental push/pop, one process per worker",
	}
	return cov
}

func writeEvidence(vdir, id, tier string, cov map[string]interface{}, spec CheckSpec, results []harnessResult, wall time.Duration, nviol int, errs []string, skip bool) {
	if skip {
		return
	}
	if cov == nil {
		cov = map[string]interface{}{"evaluations": 0, "distinct_nontrivial": 0, "samples": []interface{}{"tool error before exploration"}, "rule": "n/a"}
	}
	if len(errs) > 0 {
		cov["tool_errors"] = errs
	}
	seed := 0
	fmt.Sscanf(os.Getenv("VERIF_SEED"), "%d", &seed)
	ev := map[string]interface{}{
		"property_id": id,
		"tier":        tier,
		"seed":        seed,
		"level":       "model_checking",
		"coverage":    cov,
		"assumptions": append([]string{
			"go/packages + go/ssa (x/tools v0.50.0) lowering of /repo's current working tree",
			"instruction semantics of the gosym interpreter (/verif/engine)",
			"z3 5.1.0 verdicts (every (error line or unknown makes the run inconclusive, exit 2)",
		}, spec.Assumptions...),
		"wall_s":     round2(wall.Seconds()),
		"violations": nviol,
	}
	os.MkdirAll(filepath.Join(vdir, "evidence"), 0o755)
	b, _ := json.MarshalIndent(ev, "", " ")
	os.WriteFile(filepath.Join(vdir, "evidence", id+".json"), b, 0o644)
}

// nativeReplay runs the harness natively (real build of /repo + native vocabulary) on the
// solver's case and reports whether the same violation id shows up.
func nativeReplay(repo, hdir string, v *Violation, params map[string]int) (bool, string) {
	tmp, err := os.MkdirTemp("", "gosym-replay-")
	if err != nil {
		return false, err.Error()
	}
	defer os.RemoveAll(tmp)
	ov, err := harnessOverlay(repo, hdir, true)
	if err != nil {
		return false, err.Error()
	}
	i := strings.LastIndex(v.Harness, ".")
	pkgPath, fn := v.Harness[:i], v.Harness[i+1:]
	sub := strings.TrimPrefix(strings.TrimPrefix(pkgPath, "reservoir"), "/")
	// find the package name from one harness file of that dir
	pkgName := ""
	for p, data := range ov {
		if filepath.Dir(p) == filepath.Join(repo, sub) {
			pkgName = packageClause(data)
			break
		}
	}
	if pkgName == "" {
		return false, "no harness files for " + pkgPath
	}
	ov[filepath.Join(repo, sub, "zz_verif_replay_test.go")] = []byte(fmt.Sprintf(
		"package %s\n\nimport \"testing\"\n\nfunc TestGosymReplay(t *testing.T) { vReplayMain(t, %s) }\n", pkgName, fn))
	repl := map[string]string{}
	n := 0
	for p, data := range ov {
		n++
		f := filepath.Join(tmp, fmt.Sprintf("f%d.go", n))
		os.WriteFile(f, data, 0o644)
		repl[p] = f
	}
	ovJSON, _ := json.Marshal(map[string]interface{}{"Replace": repl})
	ovFile := filepath.Join(tmp, "overlay.json")
	os.WriteFile(ovFile, ovJSON, 0o644)
	caseJSON, _ := json.Marshal(v.Case)
	caseFile := filepath.Join(tmp, "case.json")
	os.WriteFile(caseFile, caseJSON, 0o644)
	pj, _ := json.Marshal(params)
	cmd := exec.Command("go", "test", "-v", "-vet=off", "-count=1", "-run", "^TestGosymReplay$", "-overlay", ovFile, "-timeout", "120s", "./"+sub)
	cmd.Dir = repo
	cmd.Env = append(os.Environ(), "GOSYM_CASE="+caseFile, "GOSYM_PARAMS="+string(pj), "GOCACHE="+goCacheDir())
	out, _ := cmd.CombinedOutput()
	s := string(out)
	for _, l := range strings.Split(s, "\n") {
		if strings.HasPrefix(l, "REPLAY-VIOLATED ") {
			if strings.TrimSpace(strings.TrimPrefix(l, "REPLAY-VIOLATED ")) == v.ID {
				return true, ""
			}
		}
	}
	if len(s) > 600 {
		s = s[len(s)-600:]
	}
	return false, strings.ReplaceAll(s, "\n", " | ")
}

func goCacheDir() string {
	if d := os.Getenv("GOCACHE"); d != "" {
		return d
	}
	out, err := exec.Command("go", "env", "GOCACHE").Output()
	if err == nil {
		return strings.TrimSpace(string(out))
	}
	return filepath.Join(os.TempDir(), "gocache")
}
