package main

// Run-time values of the symbolic interpreter.
//
//   *Term      bool / integers / float64
//   StrV       string: concrete length, symbolic bytes
//   *StructV   struct value (immutable)
//   *ArrayV    array value (immutable)
//   PtrV       pointer = (heap object, path of field/element indices); Obj==nil is the nil pointer
//   SliceV     (backing array object, concrete off/len/cap); Arr==nil is the nil slice
//   MapV       reference to a heap object holding *MapData; Obj==nil is the nil map
//   ChanV      reference to a heap object holding *ChanData
//   IfaceV     (dynamic type, value); Dyn==nil is the nil interface
//   *FuncV     function / closure / builtin; nil func = (*FuncV)(nil)
//   TupleV     multiple results
//
// Aggregates are immutable; all mutation goes through Object.Set (so that one undo log
// restores the heap at the end of a path).

import (
	"os"
	"fmt"
	"go/types"
	"strings"

	"golang.org/x/tools/go/ssa"
)

type Value interface{}

type StrV struct {
	C     string  // concrete content when !Sym
	B     []*Term // symbolic bytes when Sym
	Sym   bool
	Parts []StrPart // non-nil: opaque string made of literal and rendered-number parts (length unknown)
}

// StrPart is one piece of an opaque string: a literal, or the rendering of a number / instant.
type StrPart struct {
	Lit  StrV
	Num  *Term  // non-nil for rendered parts
	Kind string // "dec" (decimal integer), "udec", "time" (http.TimeFormat of unix-ns Num)
}

func (s StrV) Opaque() bool { return s.Parts != nil }

func opaqueNum(kind string, t *Term) StrV {
	return StrV{Parts: []StrPart{{Num: t, Kind: kind}}}
}

func (s StrV) parts() []StrPart {
	if s.Parts != nil {
		return s.Parts
	}
	if s.Len() == 0 {
		return nil
	}
	return []StrPart{{Lit: s}}
}

func opaqueFail(what string) {
	panic(&engineError{msg: "operation " + what + " on an opaque (rendered-number) string"})
}

func mkStr(s string) StrV { return StrV{C: s} }

func (s StrV) Len() int {
	if s.Parts != nil {
		opaqueFail("len")
	}
	if s.Sym {
		return len(s.B)
	}
	return len(s.C)
}

func (s StrV) At(i int) *Term {
	if s.Parts != nil {
		opaqueFail("index")
	}
	if s.Sym {
		return s.B[i]
	}
	return mkBV(8, uint64(s.C[i]))
}

func (s StrV) Bytes() []*Term {
	if s.Parts != nil {
		opaqueFail("bytes")
	}
	if s.Sym {
		return s.B
	}
	b := make([]*Term, len(s.C))
	for i := range b {
		b[i] = mkBV(8, uint64(s.C[i]))
	}
	return b
}

func strFromBytes(b []*Term) StrV {
	allc := true
	for _, t := range b {
		if !t.IsConst() {
			allc = false
			break
		}
	}
	if allc {
		bs := make([]byte, len(b))
		for i, t := range b {
			bs[i] = byte(t.K)
		}
		return StrV{C: string(bs)}
	}
	cp := make([]*Term, len(b))
	copy(cp, b)
	return StrV{B: cp, Sym: true}
}

func (s StrV) Slice(lo, hi int) StrV {
	if !s.Sym {
		return StrV{C: s.C[lo:hi]}
	}
	return strFromBytes(s.B[lo:hi])
}

func strConcat(a, b StrV) StrV {
	if a.Parts != nil || b.Parts != nil {
		ps := append(append([]StrPart(nil), a.parts()...), b.parts()...)
		// merge adjacent literals
		var out []StrPart
		for _, p := range ps {
			if p.Num == nil && len(out) > 0 && out[len(out)-1].Num == nil {
				out[len(out)-1].Lit = strConcat(out[len(out)-1].Lit, p.Lit)
				continue
			}
			out = append(out, p)
		}
		return StrV{Parts: out}
	}
	if !a.Sym && !b.Sym {
		return StrV{C: a.C + b.C}
	}
	if a.Len() == 0 {
		return b
	}
	if b.Len() == 0 {
		return a
	}
	r := make([]*Term, 0, a.Len()+b.Len())
	r = append(r, a.Bytes()...)
	r = append(r, b.Bytes()...)
	return StrV{B: r, Sym: true}
}

// strEq returns the condition under which two strings are equal.
func strEq(a, b StrV) *Term {
	if a.Parts != nil || b.Parts != nil {
		// a rendered number is never empty
		if (a.Parts == nil && a.Len() == 0) || (b.Parts == nil && b.Len() == 0) {
			return tFalse
		}
		if a.Parts != nil && b.Parts != nil && len(a.Parts) == len(b.Parts) {
			r := tTrue
			for i := range a.Parts {
				pa, pb := a.Parts[i], b.Parts[i]
				if (pa.Num == nil) != (pb.Num == nil) || pa.Kind != pb.Kind {
					opaqueFail("==")
				}
				if pa.Num != nil {
					r = mkAnd(r, mkEq(pa.Num, pb.Num))
				} else {
					r = mkAnd(r, strEq(pa.Lit, pb.Lit))
				}
			}
			return r
		}
		opaqueFail("==")
	}
	if a.Len() != b.Len() {
		return tFalse
	}
	if !a.Sym && !b.Sym {
		return mkBool(a.C == b.C)
	}
	r := tTrue
	for i := 0; i < a.Len(); i++ {
		r = mkAnd(r, mkEq(a.At(i), b.At(i)))
		if r.isFalse() {
			return r
		}
	}
	return r
}

// strLess: lexicographic a < b.
func strLess(a, b StrV) *Term {
	if !a.Sym && !b.Sym {
		return mkBool(a.C < b.C)
	}
	n := a.Len()
	if b.Len() < n {
		n = b.Len()
	}
	// build from the end
	var r *Term
	if a.Len() < b.Len() {
		r = tTrue
	} else {
		r = tFalse
	}
	for i := n - 1; i >= 0; i-- {
		lt := mkBVCmp("bvult", a.At(i), b.At(i))
		eq := mkEq(a.At(i), b.At(i))
		r = mkOr(lt, mkAnd(eq, r))
	}
	return r
}

func (s StrV) String() string {
	if s.Parts != nil {
		var sb strings.Builder
		sb.WriteString("opaque<")
		for _, p := range s.Parts {
			if p.Num != nil {
				fmt.Fprintf(&sb, "{%s %s}", p.Kind, showValue(p.Num))
			} else {
				sb.WriteString(p.Lit.String())
			}
		}
		sb.WriteString(">")
		return sb.String()
	}
	if !s.Sym {
		return fmt.Sprintf("%q", s.C)
	}
	var sb strings.Builder
	sb.WriteString("sym\"")
	for _, b := range s.B {
		if b.IsConst() {
			c := byte(b.K)
			if c >= 32 && c < 127 {
				sb.WriteByte(c)
			} else {
				fmt.Fprintf(&sb, "\\x%02x", c)
			}
		} else {
			sb.WriteString("?")
		}
	}
	sb.WriteString("\"")
	return sb.String()
}

type StructV struct{ F []Value }
type ArrayV struct{ E []Value }
type TupleV []Value

// Object is a heap cell.
type Object struct {
	Val   Value
	Typ   types.Type // type of the stored value (may be nil for internal objects)
	Epoch int        // 0 = created during init (undo-logged), >0 = created on the current path
	ID    int
	Name  string
	Ext   interface{} // model-specific payload (file handles, mutex state ...) stored in Val normally; Ext for immutable tags
}

type PtrV struct {
	Obj  *Object
	Path []int
	// Sym != nil: the pointer addresses element (SymOff + Sym) of the array at Path, with
	// 0 <= Sym < SymLen already established on the path (scalar elements only).
	Sym            *Term
	SymOff, SymLen int
}

func (p PtrV) IsNil() bool { return p.Obj == nil }

type SliceV struct {
	Arr           *Object // holds (at Path) an *ArrayV
	Path          []int
	Off, Len, Cap int
}

func (s SliceV) IsNil() bool { return s.Arr == nil }

type MapEntry struct {
	K, V Value
}
type MapData struct {
	E []MapEntry
}
type MapV struct{ Obj *Object }

type ChanData struct {
	Q      []Value
	Cap    int
	Closed bool
}
type ChanV struct{ Obj *Object }

// SynType is a synthetic dynamic type for opaque objects produced by models.
type SynType struct{ Name string }

type IfaceV struct {
	Dyn interface{} // types.Type or *SynType; nil = nil interface
	V   Value
}

func (i IfaceV) IsNil() bool { return i.Dyn == nil }

type FuncV struct {
	Fn      *ssa.Function
	Env     []Value
	Builtin *ssa.Builtin
	Native  func(vm *VM, args []Value) Value // harness-independent native closure (models)
	Name    string
}

// ---------- zero values ----------

func (vm *VM) zero(t types.Type) Value {
	switch u := t.Underlying().(type) {
	case *types.Basic:
		switch {
		case u.Info()&types.IsBoolean != 0:
			return tFalse
		case u.Info()&types.IsString != 0:
			return StrV{}
		case u.Info()&types.IsInteger != 0:
			return mkBV(intWidth(u), 0)
		case u.Info()&types.IsFloat != 0:
			return mkFP(0)
		case u.Kind() == types.UnsafePointer:
			return PtrV{}
		case u.Kind() == types.UntypedNil:
			return PtrV{}
		}
		panic(vm.fail("zero of basic type %v", t))
	case *types.Struct:
		f := make([]Value, u.NumFields())
		for i := range f {
			f[i] = vm.zero(u.Field(i).Type())
		}
		return &StructV{F: f}
	case *types.Array:
		n := int(u.Len())
		e := make([]Value, n)
		if n > 0 {
			z := vm.zero(u.Elem())
			for i := range e {
				e[i] = z
			}
		}
		return &ArrayV{E: e}
	case *types.Pointer:
		return PtrV{}
	case *types.Slice:
		return SliceV{}
	case *types.Map:
		return MapV{}
	case *types.Chan:
		return ChanV{}
	case *types.Interface:
		return IfaceV{}
	case *types.Signature:
		return (*FuncV)(nil)
	case *types.Tuple:
		tv := make(TupleV, u.Len())
		for i := range tv {
			tv[i] = vm.zero(u.At(i).Type())
		}
		return tv
	case *types.TypeParam:
		panic(vm.fail("zero of type parameter %v (uninstantiated generic)", t))
	}
	panic(vm.fail("zero of type %v (%T)", t, t.Underlying()))
}

func intWidth(b *types.Basic) int {
	switch b.Kind() {
	case types.Int8, types.Uint8:
		return 8
	case types.Int16, types.Uint16:
		return 16
	case types.Int32, types.Uint32:
		return 32
	default:
		return 64
	}
}

func isSigned(t types.Type) bool {
	b, ok := t.Underlying().(*types.Basic)
	if !ok {
		return false
	}
	return b.Info()&types.IsInteger != 0 && b.Info()&types.IsUnsigned == 0
}

func isInteger(t types.Type) bool {
	b, ok := t.Underlying().(*types.Basic)
	return ok && b.Info()&types.IsInteger != 0
}
func isFloat(t types.Type) bool {
	b, ok := t.Underlying().(*types.Basic)
	return ok && b.Info()&types.IsFloat != 0
}
func isString(t types.Type) bool {
	b, ok := t.Underlying().(*types.Basic)
	return ok && b.Info()&types.IsString != 0
}
func isBool(t types.Type) bool {
	b, ok := t.Underlying().(*types.Basic)
	return ok && b.Info()&types.IsBoolean != 0
}

// ---------- heap ----------

func (vm *VM) newObject(v Value, t types.Type, name string) *Object {
	vm.objCounter++
	return &Object{Val: v, Typ: t, Epoch: vm.epoch, ID: vm.objCounter, Name: name}
}

type undoRec struct {
	o   *Object
	old Value
}

func (vm *VM) setObj(o *Object, v Value) {
	if w := vm.watch; w != nil && o.ID <= w.watermark && !sameValue(o.Val, v, 0) {
		if os.Getenv("GOSYM_LOOPDBG") != "" {
			fmt.Fprintf(os.Stderr, "LOOPDBG write obj%d %s: %s -> %s @ %s\n", o.ID, o.Name, showValue(o.Val), showValue(v), vm.where())
		}
		w.progress++
	}
	if o.Epoch == 0 && vm.epoch != 0 {
		vm.undo = append(vm.undo, undoRec{o, o.Val})
	}
	o.Val = v
}

// navigate returns the sub-value at path.
func (vm *VM) navigate(v Value, path []int) Value {
	for _, i := range path {
		switch x := v.(type) {
		case *StructV:
			v = x.F[i]
		case *ArrayV:
			if i < 0 || i >= len(x.E) {
				panic(vm.fail("internal: navigate index %d out of range %d", i, len(x.E)))
			}
			v = x.E[i]
		default:
			panic(vm.fail("internal: navigate through %T", v))
		}
	}
	return v
}

// update returns v with the sub-value at path replaced (persistent).
func (vm *VM) update(v Value, path []int, nv Value) Value {
	if len(path) == 0 {
		return nv
	}
	i := path[0]
	switch x := v.(type) {
	case *StructV:
		f := make([]Value, len(x.F))
		copy(f, x.F)
		f[i] = vm.update(x.F[i], path[1:], nv)
		return &StructV{F: f}
	case *ArrayV:
		e := make([]Value, len(x.E))
		copy(e, x.E)
		e[i] = vm.update(x.E[i], path[1:], nv)
		return &ArrayV{E: e}
	}
	panic(vm.fail("internal: update through %T", v))
}

func (vm *VM) load(p PtrV) Value {
	if p.Obj == nil {
		vm.goPanicRuntime("nil pointer dereference")
	}
	vm.noteAccess(p, false)
	if p.Sym != nil {
		arr := vm.navigate(p.Obj.Val, p.Path).(*ArrayV)
		// runs of equal elements become one range test each
		el := arr.E[p.SymOff : p.SymOff+p.SymLen]
		r := el[len(el)-1].(*Term)
		i := len(el) - 1
		for i > 0 && sameTerm(el[i-1].(*Term), r) {
			i--
		}
		// el[i:] all equal r; now walk runs backwards
		for i > 0 {
			v := el[i-1].(*Term)
			j := i - 1
			for j > 0 && sameTerm(el[j-1].(*Term), v) {
				j--
			}
			// run [j, i) has value v
			var c *Term
			if i-j == 1 {
				c = mkEq(p.Sym, mkBV(p.Sym.S.W, uint64(j)))
			} else {
				c = mkBVCmp("bvult", p.Sym, mkBV(p.Sym.S.W, uint64(i)))
				if j > 0 {
					// earlier runs are tested first (outer ites), so only the upper bound is needed
				}
			}
			r = mkIte(c, v, r)
			i = j
		}
		return r
	}
	return vm.navigate(p.Obj.Val, p.Path)
}

func (vm *VM) store(p PtrV, v Value) {
	if p.Obj == nil {
		vm.goPanicRuntime("nil pointer dereference")
	}
	vm.noteAccess(p, true)
	if p.Sym != nil {
		arr := vm.navigate(p.Obj.Val, p.Path).(*ArrayV)
		e := make([]Value, len(arr.E))
		copy(e, arr.E)
		for i := 0; i < p.SymLen; i++ {
			e[p.SymOff+i] = mkIte(mkEq(p.Sym, mkBV(p.Sym.S.W, uint64(i))), v.(*Term), arr.E[p.SymOff+i].(*Term))
		}
		vm.setObj(p.Obj, vm.update(p.Obj.Val, p.Path, &ArrayV{E: e}))
		return
	}
	vm.setObj(p.Obj, vm.update(p.Obj.Val, p.Path, v))
}

func ptrField(p PtrV, i int) PtrV {
	if p.Sym != nil {
		panic(&engineError{msg: "field/element address through a symbolic-index pointer"})
	}
	np := make([]int, len(p.Path)+1)
	copy(np, p.Path)
	np[len(p.Path)] = i
	return PtrV{Obj: p.Obj, Path: np}
}

func ptrEq(a, b PtrV) bool {
	if a.Sym != nil || b.Sym != nil {
		panic(&engineError{msg: "comparison of symbolic-index pointers"})
	}
	if a.Obj != b.Obj || len(a.Path) != len(b.Path) {
		return false
	}
	for i := range a.Path {
		if a.Path[i] != b.Path[i] {
			return false
		}
	}
	return true
}

// slice element access
func (vm *VM) sliceElems(s SliceV) []Value {
	if s.Arr == nil {
		return nil
	}
	return vm.navigate(s.Arr.Val, s.Path).(*ArrayV).E[s.Off : s.Off+s.Len]
}

func (vm *VM) newArrayObj(elems []Value, elemT types.Type) *Object {
	return vm.newObject(&ArrayV{E: elems}, nil, "array")
}

func (vm *VM) makeSlice(elemT types.Type, n, c int) SliceV {
	e := make([]Value, c)
	if c > 0 {
		z := vm.zero(elemT)
		for i := range e {
			e[i] = z
		}
	}
	return SliceV{Arr: vm.newArrayObj(e, elemT), Off: 0, Len: n, Cap: c}
}

func (vm *VM) sliceFromValues(vals []Value) SliceV {
	e := make([]Value, len(vals))
	copy(e, vals)
	return SliceV{Arr: vm.newArrayObj(e, nil), Len: len(e), Cap: len(e)}
}

func (vm *VM) byteSliceFromStr(s StrV) SliceV {
	b := s.Bytes()
	e := make([]Value, len(b))
	for i, t := range b {
		e[i] = t
	}
	return SliceV{Arr: vm.newArrayObj(e, nil), Len: len(e), Cap: len(e)}
}

func (vm *VM) strFromByteSlice(s SliceV) StrV {
	el := vm.sliceElems(s)
	b := make([]*Term, len(el))
	for i, v := range el {
		b[i] = v.(*Term)
	}
	return strFromBytes(b)
}

// writeSlice stores vals into s starting at index at (single heap update).
func (vm *VM) writeSlice(s SliceV, at int, vals []Value) {
	if len(vals) == 0 {
		return
	}
	old := vm.navigate(s.Arr.Val, s.Path).(*ArrayV)
	e := make([]Value, len(old.E))
	copy(e, old.E)
	copy(e[s.Off+at:], vals)
	vm.noteAccess(PtrV{Obj: s.Arr, Path: s.Path}, true)
	vm.setObj(s.Arr, vm.update(s.Arr.Val, s.Path, &ArrayV{E: e}))
}

// ---------- maps ----------

func (vm *VM) newMap() MapV {
	return MapV{Obj: vm.newObject(&MapData{}, nil, "map")}
}

// valueEq returns the condition under which two values of a comparable type are equal.
func (vm *VM) valueEq(a, b Value) *Term {
	switch x := a.(type) {
	case *Term:
		y, ok := b.(*Term)
		if !ok {
			return tFalse
		}
		return mkEq(x, y)
	case StrV:
		y, ok := b.(StrV)
		if !ok {
			return tFalse
		}
		return strEq(x, y)
	case *StructV:
		y, ok := b.(*StructV)
		if !ok || len(y.F) != len(x.F) {
			return tFalse
		}
		r := tTrue
		for i := range x.F {
			r = mkAnd(r, vm.valueEq(x.F[i], y.F[i]))
			if r.isFalse() {
				return r
			}
		}
		return r
	case *ArrayV:
		y, ok := b.(*ArrayV)
		if !ok || len(y.E) != len(x.E) {
			return tFalse
		}
		r := tTrue
		for i := range x.E {
			r = mkAnd(r, vm.valueEq(x.E[i], y.E[i]))
			if r.isFalse() {
				return r
			}
		}
		return r
	case PtrV:
		y, ok := b.(PtrV)
		if !ok {
			return tFalse
		}
		return mkBool(ptrEq(x, y))
	case IfaceV:
		y, ok := b.(IfaceV)
		if !ok {
			return tFalse
		}
		if x.Dyn == nil || y.Dyn == nil {
			return mkBool(x.Dyn == nil && y.Dyn == nil)
		}
		if !sameDyn(x.Dyn, y.Dyn) {
			return tFalse
		}
		return vm.valueEq(x.V, y.V)
	case ChanV:
		y, ok := b.(ChanV)
		return mkBool(ok && x.Obj == y.Obj)
	case MapV:
		y, ok := b.(MapV)
		return mkBool(ok && x.Obj == y.Obj)
	case *FuncV:
		y, ok := b.(*FuncV)
		return mkBool(ok && x == y)
	case SliceV:
		y, ok := b.(SliceV)
		return mkBool(ok && x.Arr == y.Arr && x.Arr == nil)
	}
	panic(vm.fail("valueEq on %T", a))
}

func sameDyn(a, b interface{}) bool {
	ta, oka := a.(types.Type)
	tb, okb := b.(types.Type)
	if oka && okb {
		return types.Identical(ta, tb)
	}
	if !oka && !okb {
		return a.(*SynType) == b.(*SynType)
	}
	return false
}

// mapLookup finds key; forks on symbolic key equality.
func (vm *VM) mapLookup(m MapV, key Value) (Value, bool) {
	if m.Obj == nil {
		return nil, false
	}
	vm.noteAccess(PtrV{Obj: m.Obj}, false)
	md := m.Obj.Val.(*MapData)
	for _, e := range md.E {
		c := vm.valueEq(e.K, key)
		if c.isFalse() {
			continue
		}
		if c.isTrue() || vm.branch(c) {
			return e.V, true
		}
	}
	return nil, false
}

func (vm *VM) mapStore(m MapV, key, val Value) {
	if m.Obj == nil {
		vm.goPanicRuntime("assignment to entry in nil map")
	}
	vm.noteAccess(PtrV{Obj: m.Obj}, true)
	md := m.Obj.Val.(*MapData)
	for i, e := range md.E {
		c := vm.valueEq(e.K, key)
		if c.isFalse() {
			continue
		}
		if c.isTrue() || vm.branch(c) {
			ne := make([]MapEntry, len(md.E))
			copy(ne, md.E)
			ne[i].V = val
			vm.setObj(m.Obj, &MapData{E: ne})
			return
		}
	}
	ne := make([]MapEntry, len(md.E)+1)
	copy(ne, md.E)
	ne[len(md.E)] = MapEntry{key, val}
	vm.setObj(m.Obj, &MapData{E: ne})
}

func (vm *VM) mapDelete(m MapV, key Value) {
	if m.Obj == nil {
		return
	}
	vm.noteAccess(PtrV{Obj: m.Obj}, true)
	md := m.Obj.Val.(*MapData)
	for i, e := range md.E {
		c := vm.valueEq(e.K, key)
		if c.isFalse() {
			continue
		}
		if c.isTrue() || vm.branch(c) {
			ne := make([]MapEntry, 0, len(md.E)-1)
			ne = append(ne, md.E[:i]...)
			ne = append(ne, md.E[i+1:]...)
			vm.setObj(m.Obj, &MapData{E: ne})
			return
		}
	}
}

func (vm *VM) mapLen(m MapV) int {
	if m.Obj == nil {
		return 0
	}
	vm.noteAccess(PtrV{Obj: m.Obj}, false)
	return len(m.Obj.Val.(*MapData).E)
}

// ---------- debugging ----------

func showValue(v Value) string {
	switch x := v.(type) {
	case nil:
		return "<nil>"
	case *Term:
		if x.size > 12 {
			return fmt.Sprintf("<term:%s#%d>", x.S, x.id)
		}
		return x.String()
	case StrV:
		return x.String()
	case *StructV:
		var parts []string
		for _, f := range x.F {
			parts = append(parts, showValue(f))
		}
		return "{" + strings.Join(parts, ", ") + "}"
	case *ArrayV:
		if len(x.E) > 8 {
			return fmt.Sprintf("[%d]array", len(x.E))
		}
		var parts []string
		for _, f := range x.E {
			parts = append(parts, showValue(f))
		}
		return "[" + strings.Join(parts, ", ") + "]"
	case PtrV:
		if x.Obj == nil {
			return "nil"
		}
		return fmt.Sprintf("&obj%d%v", x.Obj.ID, x.Path)
	case SliceV:
		if x.Arr == nil {
			return "nilslice"
		}
		return fmt.Sprintf("slice(obj%d,%d,%d,%d)", x.Arr.ID, x.Off, x.Len, x.Cap)
	case MapV:
		if x.Obj == nil {
			return "nilmap"
		}
		return fmt.Sprintf("map(obj%d,%d)", x.Obj.ID, len(x.Obj.Val.(*MapData).E))
	case IfaceV:
		if x.Dyn == nil {
			return "nil-iface"
		}
		return fmt.Sprintf("iface(%v:%s)", dynName(x.Dyn), showValue(x.V))
	case *FuncV:
		if x == nil {
			return "nilfunc"
		}
		if x.Fn != nil {
			return "func " + x.Fn.String()
		}
		return "func " + x.Name
	case TupleV:
		var parts []string
		for _, f := range x {
			parts = append(parts, showValue(f))
		}
		return "(" + strings.Join(parts, ", ") + ")"
	}
	return fmt.Sprintf("%T", v)
}

func dynName(d interface{}) string {
	switch x := d.(type) {
	case types.Type:
		return x.String()
	case *SynType:
		return "syn:" + x.Name
	}
	return "?"
}


// sameValue: are the two values certainly the same?  (false when unsure)
func sameValue(a, b Value, depth int) bool {
	if depth > 6 {
		return false
	}
	switch x := a.(type) {
	case nil:
		return b == nil
	case *Term:
		y, ok := b.(*Term)
		if !ok {
			return false
		}
		if x == y {
			return true
		}
		return x.IsConst() && y.IsConst() && x.S == y.S && constSMT(x) == constSMT(y)
	case StrV:
		y, ok := b.(StrV)
		return ok && !x.Sym && !y.Sym && !x.Opaque() && !y.Opaque() && x.C == y.C
	case PtrV:
		y, ok := b.(PtrV)
		if !ok || x.Obj != y.Obj || x.Sym != y.Sym || len(x.Path) != len(y.Path) {
			return false
		}
		for i := range x.Path {
			if x.Path[i] != y.Path[i] {
				return false
			}
		}
		return true
	case *StructV:
		y, ok := b.(*StructV)
		if !ok || len(x.F) != len(y.F) {
			return false
		}
		if x == y {
			return true
		}
		for i := range x.F {
			if !sameValue(x.F[i], y.F[i], depth+1) {
				return false
			}
		}
		return true
	case *ArrayV:
		y, ok := b.(*ArrayV)
		if !ok || len(x.E) != len(y.E) {
			return false
		}
		if x == y {
			return true
		}
		if len(x.E) > 64 {
			return false
		}
		for i := range x.E {
			if !sameValue(x.E[i], y.E[i], depth+1) {
				return false
			}
		}
		return true
	case SliceV:
		y, ok := b.(SliceV)
		return ok && x.Arr == y.Arr && x.Off == y.Off && x.Len == y.Len && x.Cap == y.Cap && len(x.Path) == len(y.Path)
	case IfaceV:
		y, ok := b.(IfaceV)
		return ok && x.Dyn == y.Dyn && sameValue(x.V, y.V, depth+1)
	}
	return false
}
